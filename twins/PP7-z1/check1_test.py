"""
Behaviour checks for refactoring 1 (bound signal creation helper, filter guard clause,
hoisted default queue size, renamed locals).

Everything goes through the public API of ``asphalt.core``.
"""

from __future__ import annotations

import gc
import inspect
import warnings
from typing import Any

import pytest
from anyio import create_task_group, fail_after, wait_all_tasks_blocked

from asphalt.core import (
    Event,
    Signal,
    SignalQueueFull,
    UnboundSignal,
    stream_events,
    wait_event,
)

pytestmark = pytest.mark.anyio()


class NumberEvent(Event):
    def __init__(self, number: Any = None) -> None:
        self.number = number


class OtherEvent(Event):
    pass


class Source:
    changed = Signal(NumberEvent)
    other = Signal(OtherEvent)


class DerivedSource(Source):
    pass


# ---------------------------------------------------------------------------
# Signal.__get__ / __set_name__
# ---------------------------------------------------------------------------


def test_class_access_returns_declaration() -> None:
    declaration = Source.__dict__["changed"]
    assert Source.changed is declaration
    assert DerivedSource.changed is declaration
    assert declaration.event_class is NumberEvent


def test_bound_signal_is_cached_per_instance() -> None:
    first, second = Source(), Source()
    bound = first.changed
    assert bound is first.changed
    assert bound is not Source.changed
    assert bound is not second.changed
    assert first.changed is not first.other
    assert bound.event_class is NumberEvent
    assert first.other.event_class is OtherEvent
    assert isinstance(bound, Signal)


def test_bound_signal_shared_with_subclass_instances() -> None:
    derived = DerivedSource()
    assert derived.changed is derived.changed
    assert derived.changed is not Source().changed


def test_bound_signal_does_not_keep_owner_alive() -> None:
    class Owner:
        sig = Signal(Event)

    owner = Owner()
    bound = owner.sig
    del owner
    gc.collect()
    assert not [x for x in gc.get_objects() if isinstance(x, Owner)]
    # The bound signal survives but its source is gone
    with warnings.catch_warnings():
        warnings.simplefilter("error")
        event = Event()
        bound.dispatch(event)

    assert event.source is None
    assert event.topic == "sig"


def test_new_bound_signal_after_owner_collected() -> None:
    class Owner:
        sig = Signal(Event)

    owner = Owner()
    first_id = id(owner.sig)
    keep = owner.sig
    del owner
    gc.collect()
    owner2 = Owner()
    assert owner2.sig is not keep
    assert id(owner2.sig) != first_id
    assert owner2.sig is owner2.sig


def test_instance_that_cannot_be_weakly_referenced() -> None:
    class Slotted:
        __slots__ = ()
        sig = Signal(Event)

    slotted = Slotted()
    with pytest.raises(TypeError, match="cannot create weak reference"):
        slotted.sig

    # class level access still works
    assert isinstance(Slotted.sig, Signal)


def test_unhashable_instance() -> None:
    class Unhashable:
        __hash__ = None  # type: ignore[assignment]
        sig = Signal(Event)

    with pytest.raises(TypeError, match="unhashable type"):
        Unhashable().sig


def test_signal_without_a_name() -> None:
    """A signal attached after class creation never got its ``__set_name__`` call."""

    class Late:
        pass

    Late.sig = Signal(Event)  # type: ignore[attr-defined]
    late = Late()
    with pytest.raises(AttributeError, match="_topic") as exc_info:
        late.sig  # type: ignore[attr-defined]

    assert isinstance(exc_info.value.__context__, KeyError)
    # Nothing was cached by the failed access; naming the signal repairs it
    Late.sig.__set_name__(Late, "renamed")  # type: ignore[attr-defined]
    event = Event()
    late.sig.dispatch(event)  # type: ignore[attr-defined]
    assert event.topic == "renamed"
    assert event.source is late


def test_topic_is_the_attribute_name() -> None:
    source = Source()
    event, other_event = NumberEvent(1), OtherEvent()
    source.changed.dispatch(event)
    source.other.dispatch(other_event)
    assert (event.topic, other_event.topic) == ("changed", "other")
    assert event.source is source and other_event.source is source


def test_set_name_after_binding_does_not_affect_existing_bound_signals() -> None:
    class Owner:
        sig = Signal(Event)

    early = Owner()
    early_bound = early.sig
    Owner.sig.__set_name__(Owner, "different")
    late = Owner()
    event1, event2 = Event(), Event()
    early_bound.dispatch(event1)
    late.sig.dispatch(event2)
    assert event1.topic == "sig"
    assert event2.topic == "different"
    assert early.sig is early_bound


def test_unbound_signal_refuses_to_dispatch() -> None:
    with pytest.raises(UnboundSignal, match="not bound to an instance"):
        Source.changed.dispatch(NumberEvent(1))


# ---------------------------------------------------------------------------
# default queue size
# ---------------------------------------------------------------------------


def test_default_queue_size_in_signatures() -> None:
    function_param = inspect.signature(stream_events).parameters["max_queue_size"]
    method_param = inspect.signature(Signal.stream_events).parameters["max_queue_size"]
    for param in (function_param, method_param):
        assert param.default == 50
        assert type(param.default) is int
        assert param.kind is inspect.Parameter.KEYWORD_ONLY


async def test_default_queue_holds_fifty_events() -> None:
    source = Source()
    async with source.changed.stream_events() as stream:
        with warnings.catch_warnings(record=True) as caught:
            warnings.simplefilter("always")
            for number in range(52):
                source.changed.dispatch(NumberEvent(number))

        assert [str(w.message) for w in caught] == [
            "Queue full (50) when trying to send dispatched event to subscriber"
        ] * 2
        assert all(w.category is SignalQueueFull for w in caught)
        received = []
        async for event in stream:
            received.append(event.number)
            if len(received) == 50:
                break

    assert received == list(range(50))


async def test_default_queue_size_of_function() -> None:
    source = Source()
    async with stream_events([source.changed, source.other]):
        with warnings.catch_warnings(record=True) as caught:
            warnings.simplefilter("always")
            for number in range(30):
                source.changed.dispatch(NumberEvent(number))
                source.other.dispatch(OtherEvent())

        assert len(caught) == 10


# ---------------------------------------------------------------------------
# filters
# ---------------------------------------------------------------------------


@pytest.mark.parametrize(
    "verdicts, expected",
    [
        pytest.param([True, False, True, False], [0, 2], id="bools"),
        pytest.param([0, 1, "", "x"], [1, 3], id="truthiness"),
        pytest.param([[], [0], None, object()], [1, 3], id="objects"),
        pytest.param([False, False, False, True], [3], id="last"),
    ],
)
async def test_filter_truthiness(verdicts: list[Any], expected: list[int]) -> None:
    source = Source()
    calls: list[int] = []

    def event_filter(event: NumberEvent) -> Any:
        calls.append(event.number)
        return verdicts[event.number]

    async with source.changed.stream_events(event_filter) as stream:
        for number in range(4):
            source.changed.dispatch(NumberEvent(number))

        source.changed.dispatch(NumberEvent(expected[-1]))
        received = []
        with fail_after(1):
            async for event in stream:
                received.append(event.number)
                if len(received) == len(expected):
                    break

    assert received == expected
    # the filter is called lazily, once per event, only as far as was consumed
    assert calls == list(range(expected[-1] + 1))


async def test_filter_with_custom_bool() -> None:
    bool_calls = []

    class Verdict:
        def __init__(self, value: bool) -> None:
            self.value = value

        def __bool__(self) -> bool:
            bool_calls.append(self.value)
            return self.value

    source = Source()
    async with source.changed.stream_events(
        lambda event: Verdict(event.number % 2 == 1)
    ) as stream:
        for number in range(4):
            source.changed.dispatch(NumberEvent(number))

        with fail_after(1):
            first = await stream.__anext__()
            second = await stream.__anext__()

    assert (first.number, second.number) == (1, 3)
    assert bool_calls == [False, True, False, True]


async def test_no_filter_passes_everything_in_order() -> None:
    source = Source()
    async with stream_events([source.changed], None, max_queue_size=5) as stream:
        events = [NumberEvent(number) for number in range(5)]
        for event in events:
            source.changed.dispatch(event)

        received = []
        async for event in stream:
            received.append(event)
            if len(received) == 5:
                break

    assert all(a is b for a, b in zip(received, events))


async def test_falsy_filter_object_is_still_a_filter() -> None:
    """Only ``None`` means "no filter"; a falsy callable object is still called."""

    class FalsyFilter:
        def __bool__(self) -> bool:
            return False

        def __call__(self, event: NumberEvent) -> bool:
            return event.number == 2

    source = Source()
    async with source.changed.stream_events(FalsyFilter()) as stream:  # type: ignore[arg-type]
        for number in range(4):
            source.changed.dispatch(NumberEvent(number))

        with fail_after(1):
            event = await stream.__anext__()

    assert event.number == 2


async def test_failing_filter_ends_the_stream() -> None:
    source = Source()

    def event_filter(event: NumberEvent) -> bool:
        if event.number == 1:
            raise LookupError("bad event")

        return True

    async with source.changed.stream_events(event_filter) as stream:
        for number in range(3):
            source.changed.dispatch(NumberEvent(number))

        assert (await stream.__anext__()).number == 0
        with pytest.raises(LookupError, match="bad event"):
            await stream.__anext__()

        # The generator is finished now, but the subscription remains until exit
        with pytest.raises(StopAsyncIteration):
            await stream.__anext__()

        with warnings.catch_warnings():
            warnings.simplefilter("error")
            source.changed.dispatch(NumberEvent(3))

    # unsubscribed: a full queue can't cause warnings any more
    with warnings.catch_warnings():
        warnings.simplefilter("error")
        for number in range(100):
            source.changed.dispatch(NumberEvent(number))


async def test_failing_filter_in_wait_event_unsubscribes() -> None:
    source = Source()

    def event_filter(event: NumberEvent) -> bool:
        raise ZeroDivisionError("filter failed")

    async def dispatch_soon() -> None:
        await wait_all_tasks_blocked()
        source.changed.dispatch(NumberEvent(1))

    async with create_task_group() as tg:
        tg.start_soon(dispatch_soon)
        with fail_after(1), pytest.raises(ZeroDivisionError, match="filter failed"):
            await source.changed.wait_event(event_filter)

    with warnings.catch_warnings():
        warnings.simplefilter("error")
        for number in range(100):
            source.changed.dispatch(NumberEvent(number))


# ---------------------------------------------------------------------------
# subscription bookkeeping
# ---------------------------------------------------------------------------


async def test_subscription_lifetime() -> None:
    source = Source()
    with warnings.catch_warnings(record=True) as caught:
        warnings.simplefilter("always")
        async with source.changed.stream_events(max_queue_size=1):
            source.changed.dispatch(NumberEvent(1))
            source.changed.dispatch(NumberEvent(2))
            assert len(caught) == 1
            async with source.changed.stream_events(max_queue_size=1):
                source.changed.dispatch(NumberEvent(3))
                # outer queue is still full, inner just became full
                assert len(caught) == 2
                source.changed.dispatch(NumberEvent(4))
                assert len(caught) == 4

            source.changed.dispatch(NumberEvent(5))
            assert len(caught) == 5

        source.changed.dispatch(NumberEvent(6))
        assert len(caught) == 5


async def test_unbound_signal_among_bound_ones() -> None:
    source = Source()
    with pytest.raises(UnboundSignal):
        async with stream_events(
            [source.changed, Source.changed, source.other], max_queue_size=1
        ):
            pytest.fail("should not get here")

    with pytest.raises(UnboundSignal):
        await wait_event([source.changed, Source.changed])

    # The subscription made before the failure was rolled back
    with warnings.catch_warnings():
        warnings.simplefilter("error")
        for number in range(5):
            source.changed.dispatch(NumberEvent(number))
            source.other.dispatch(OtherEvent())


async def test_two_sources_are_independent() -> None:
    first, second = Source(), Source()
    async with first.changed.stream_events() as stream:
        second.changed.dispatch(NumberEvent("second"))
        first.other.dispatch(OtherEvent())
        first.changed.dispatch(NumberEvent("first"))
        with fail_after(1):
            event = await stream.__anext__()

    assert event.number == "first"
    assert event.source is first
