"""
Behaviour checks for refactoring 3 (private attribute renames, ``get_resources`` as
a loop, message formatting, ``.get()`` lookups, reordered/aliased shortcuts).

Must pass both on the unchanged source and with refactor3.diff applied.
"""

from __future__ import annotations

import inspect
from collections.abc import AsyncGenerator
from contextlib import asynccontextmanager
from typing import Any

import anyio
import pytest
from anyio import create_task_group, wait_all_tasks_blocked

import asphalt.core
from asphalt.core import (
    AsyncResourceError,
    Component,
    Context,
    NoCurrentContext,
    ResourceConflict,
    ResourceEvent,
    ResourceNotFound,
    add_resource,
    add_resource_factory,
    current_context,
    get_resource,
    get_resource_nowait,
    get_resources,
    start_component,
)

pytestmark = pytest.mark.anyio


@pytest.fixture
def anyio_backend() -> str:
    return "asyncio"


@asynccontextmanager
async def record_events(ctx: Context) -> AsyncGenerator[list[ResourceEvent], None]:
    events: list[ResourceEvent] = []

    async def listener(*, task_status: Any) -> None:
        async with ctx.resource_added.stream_events() as stream:
            task_status.started()
            async for event in stream:
                events.append(event)

    async with create_task_group() as tg:
        await tg.start(listener)
        yield events
        await wait_all_tasks_blocked()
        tg.cancel_scope.cancel()


def summarize(events: list[ResourceEvent]) -> list[tuple[Any, ...]]:
    return [
        (e.resource_types, e.resource_name, e.resource_description, e.is_factory)
        for e in events
    ]


class Outer:
    class Inner:
        pass


class TestGetResources:
    async def test_order_and_multiple_types(self) -> None:
        async with Context() as ctx:
            assert ctx.get_resources(int) == {}
            ctx.add_resource(3, "c")
            ctx.add_resource(1, "a", [int, object])
            ctx.add_resource("s", "b")
            ctx.add_resource(2, "b", [object, int])
            result = ctx.get_resources(int)
            assert type(result) is dict
            # Insertion order of the underlying registrations is retained
            assert list(result.items()) == [("c", 3), ("a", 1), ("b", 2)]
            assert list(ctx.get_resources(object).items()) == [("a", 1), ("b", 2)]
            assert list(get_resources(str).items()) == [("b", "s")]
            assert ctx.get_resources(float) == {}
            # A fresh mapping is returned every time
            result["zzz"] = 0
            assert "zzz" not in ctx.get_resources(int)

    async def test_same_name_static_and_generated(self) -> None:
        async with Context() as ctx:
            ctx.add_resource("static", "x", types=[str])
            ctx.add_resource_factory(lambda: "generated", "x", types=[str, bytes])
            assert ctx.get_resources(str) == {"x": "static"}
            assert ctx.get_resource_nowait(bytes, "x") == "generated"
            # The generated container (registered under bytes only, but typed as
            # (str, bytes)) comes later, so it wins under the name "x"
            assert ctx.get_resources(str) == {"x": "generated"}
            assert ctx.get_resources(bytes) == {"x": "generated"}
            assert ctx.get_resource_nowait(str, "x") == "static"

    async def test_does_not_trigger_factories_or_check_state(self) -> None:
        calls: list[int] = []
        ctx = Context()
        assert ctx.get_resources(int) == {}  # no state check
        async with ctx:
            ctx.add_resource_factory(lambda: calls.append(1) or 1, types=int)
            assert ctx.get_resources(int) == {}
            assert calls == []
            ctx.add_resource(5, "five")

        assert ctx.get_resources(int) == {"five": 5}

    async def test_type_comparison_uses_equality(self) -> None:
        async with Context() as ctx:
            ctx.add_resource([1], "g", list[int])
            assert ctx.get_resources(list[int]) == {"g": [1]}
            assert ctx.get_resources(list) == {}
            assert ctx.get_resource_nowait(list[int], "g") == [1]


class TestInheritance:
    async def test_child_copies_static_resources_and_factories(self) -> None:
        counter = iter(range(1, 100))
        async with Context() as parent:
            parent.add_resource("static")
            parent.add_resource_factory(lambda: next(counter), types=int)
            assert parent.get_resource_nowait(int) == 1
            async with Context() as child:
                assert child.parent is parent
                assert child.get_resources(str) == {"default": "static"}
                # generated resources are not inherited
                assert child.get_resources(int) == {}
                assert await child.get_resource(int) == 2
                # The child has its own copies of the lookup tables
                child.add_resource("child only", "c")
                child.add_resource_factory(lambda: 1.5, "c", types=float)
                with pytest.raises(ResourceConflict):
                    child.add_resource("dupe")

                with pytest.raises(ResourceConflict):
                    child.add_resource_factory(lambda: 0, types=int)

                async with Context() as grandchild:
                    assert sorted(grandchild.get_resources(str)) == ["c", "default"]
                    assert grandchild.get_resource_nowait(float, "c") == 1.5
                    assert grandchild.get_resource_nowait(int) == 3

            assert parent.get_resources(str) == {"default": "static"}
            assert parent.get_resource_nowait(float, "c", optional=True) is None
            assert parent.get_resource_nowait(int) == 1
            # Resources added to the parent later do not show up in older children,
            # but do in new ones
            parent.add_resource("later", "later")
            async with Context() as child2:
                assert sorted(child2.get_resources(str)) == ["default", "later"]

    async def test_context_created_in_component(self) -> None:
        seen: dict[str, Any] = {}

        class MyComponent(Component):
            async def start(self) -> None:
                add_resource("from component", "comp")
                add_resource_factory(lambda: 99, "comp", types=int)
                seen["ctx_type"] = type(current_context()).__name__
                async with Context() as inner:
                    seen["parent"] = inner.parent
                    seen["inherited"] = dict(inner.get_resources(str))
                    seen["generated"] = await get_resource(int, "comp")
                    seen["nowait"] = get_resource_nowait(str, "comp")

                seen["all"] = dict(get_resources(str))

        async with Context() as root:
            root.add_resource("root")
            await start_component(MyComponent)
            assert seen["ctx_type"] == "ComponentContext"
            assert seen["parent"] is root
            assert seen["inherited"] == {"default": "root", "comp": "from component"}
            assert seen["generated"] == 99
            assert seen["nowait"] == "from component"
            assert root.get_resources(str) == {
                "default": "root",
                "comp": "from component",
            }
            assert root.get_resources(int) == {}
            assert root.get_resource_nowait(int, "comp") == 99


class TestMessages:
    async def test_resource_conflict_messages(self) -> None:
        async with Context() as ctx:
            ctx.add_resource(Outer.Inner(), "n1")
            ctx.add_resource(5, "n1")
            ctx.add_resource([1], "n1", list[int])
            with pytest.raises(ResourceConflict) as exc:
                ctx.add_resource(Outer.Inner(), "n1")

            assert type(exc.value) is ResourceConflict
            assert exc.value.args == (
                "this context already contains a resource of type "
                f"{__name__}.Outer.Inner using the name 'n1'",
            )
            with pytest.raises(ResourceConflict) as exc:
                add_resource(6, "n1")

            assert exc.value.args == (
                "this context already contains a resource of type int using the name "
                "'n1'",
            )
            # A parametrized generic is formatted by its type (types.GenericAlias)
            with pytest.raises(ResourceConflict) as exc:
                ctx.add_resource([2], "n1", list[int])

            assert exc.value.args == (
                "this context already contains a resource of type "
                "types.GenericAlias using the name 'n1'",
            )

    async def test_factory_conflict_messages(self) -> None:
        async with Context() as ctx:
            ctx.add_resource_factory(lambda: 1, "f", types=[int, Outer.Inner])
            with pytest.raises(ResourceConflict) as exc:
                ctx.add_resource_factory(lambda: 1, "f", types=[Outer.Inner, int])

            assert exc.value.args == (
                "this context already contains a resource factory for the type "
                f"{__name__}.Outer.Inner",
            )
            with pytest.raises(ResourceConflict) as exc:
                add_resource_factory(lambda: 1, "f", types=int)

            assert exc.value.args == (
                "this context already contains a resource factory for the type int",
            )
            # Different name: no conflict
            ctx.add_resource_factory(lambda: 2, "g", types=[Outer.Inner, int])
            assert ctx.get_resource_nowait(int, "g") == 2

    async def test_name_with_quotes_is_rejected_before_formatting(self) -> None:
        async with Context() as ctx:
            with pytest.raises(ValueError, match='^"name" must be a nonempty string'):
                ctx.add_resource(1, "it's")


@pytest.mark.parametrize("nowait", [True, False], ids=["nowait", "async"])
class TestLookups:
    async def lookup(
        self, ctx: Context | None, nowait: bool, *args: Any, **kwargs: Any
    ) -> Any:
        if ctx is None:
            if nowait:
                return get_resource_nowait(*args, **kwargs)

            return await get_resource(*args, **kwargs)

        if nowait:
            return ctx.get_resource_nowait(*args, **kwargs)

        return await ctx.get_resource(*args, **kwargs)

    async def test_static_then_factory_then_missing(self, nowait: bool) -> None:
        calls: list[str] = []

        def factory() -> str:
            calls.append("x")
            return "made" + str(len(calls))

        async with Context() as ctx:
            ctx.add_resource("static")
            ctx.add_resource_factory(factory, "made", types=[str, object], description="D")
            async with record_events(ctx) as events:
                for target in (ctx, None):
                    assert await self.lookup(target, nowait, str) == "static"
                    assert await self.lookup(target, nowait, object, "made") == "made1"
                    assert await self.lookup(target, nowait, str, "made") == "made1"
                    assert (
                        await self.lookup(target, nowait, int, optional=True) is None
                    )
                    with pytest.raises(ResourceNotFound) as exc:
                        await self.lookup(target, nowait, object)

                    assert str(exc.value) == (
                        "no matching resource was found for type=object "
                        "name='default'"
                    )

            assert calls == ["x"]
            assert summarize(events) == [((str, object), "made", "D", False)]
            assert list(ctx.get_resources(str).items()) == [
                ("default", "static"),
                ("made", "made1"),
            ]

    async def test_falsy_generated_values_are_cached(self, nowait: bool) -> None:
        calls: list[int] = []

        def factory() -> int:
            calls.append(1)
            return 0

        async with Context() as ctx:
            ctx.add_resource_factory(factory)
            ctx.add_resource("", "empty")
            assert await self.lookup(ctx, nowait, int) == 0
            assert await self.lookup(None, nowait, int) == 0
            assert await self.lookup(ctx, nowait, str, "empty") == ""
            assert calls == [1]

    async def test_failing_factory(self, nowait: bool) -> None:
        def factory() -> int:
            raise LookupError("nope")

        async with Context() as ctx:
            ctx.add_resource_factory(factory)
            async with record_events(ctx) as events:
                with pytest.raises(LookupError, match="^nope$") as exc:
                    await self.lookup(None, nowait, int, optional=True)

                assert type(exc.value) is LookupError

            assert events == []
            assert ctx.get_resources(int) == {}


async def test_async_factory_paths() -> None:
    async def factory() -> int:
        await anyio.sleep(0)
        return 11

    async with Context() as ctx:
        add_resource_factory(factory, "n")
        async with record_events(ctx) as events:
            with pytest.raises(AsyncResourceError):
                get_resource_nowait(int, "n")

            assert get_resources(int) == {}
            assert await get_resource(int, "n") == 11
            assert get_resource_nowait(int, "n") == 11

        assert summarize(events) == [((int,), "n", None, False)]


async def test_cancelled_async_lookup_leaves_no_trace() -> None:
    started = anyio.Event()

    async def factory() -> int:
        started.set()
        await anyio.sleep_forever()
        return 1

    async with Context() as ctx:
        ctx.add_resource_factory(factory)
        async with record_events(ctx) as events:
            async with create_task_group() as tg:
                tg.start_soon(get_resource, int)
                await started.wait()
                tg.cancel_scope.cancel()

        assert events == []
        assert ctx.get_resources(int) == {}


async def test_shortcuts_without_context() -> None:
    with pytest.raises(NoCurrentContext):
        add_resource(None, "bad name")

    with pytest.raises(NoCurrentContext):
        add_resource_factory(lambda: 1)

    with pytest.raises(NoCurrentContext):
        get_resources(int)

    with pytest.raises(NoCurrentContext):
        get_resource_nowait(int, optional=True)

    # The async shortcut only fails once awaited
    coro = get_resource(int, optional=True)
    assert inspect.iscoroutine(coro)
    with pytest.raises(NoCurrentContext):
        await coro


async def test_shortcuts_target_innermost_context() -> None:
    async with Context() as outer:
        add_resource("outer", "o")
        async with Context() as inner:
            add_resource("inner", "i")
            add_resource_factory(lambda: 1, types=int)
            assert get_resources(str) == {"o": "outer", "i": "inner"}
            assert get_resource_nowait(int) == 1
            assert current_context() is inner

        assert current_context() is outer
        assert get_resources(str) == {"o": "outer"}
        assert get_resource_nowait(int, optional=True) is None
        assert await get_resource(str, "i", optional=True) is None


def test_public_api_surface() -> None:
    for name in (
        "add_resource",
        "add_resource_factory",
        "get_resource",
        "get_resource_nowait",
        "get_resources",
    ):
        func = getattr(asphalt.core, name)
        method = getattr(Context, name)
        assert func.__module__ == "asphalt.core"
        # Same parameters as the method, minus "self"
        func_params = list(inspect.signature(func).parameters.values())
        method_params = list(inspect.signature(method).parameters.values())[1:]
        assert [(p.name, p.kind, p.default) for p in func_params] == [
            (p.name, p.kind, p.default) for p in method_params
        ]
        assert inspect.iscoroutinefunction(func) == (name == "get_resource")
