"""C19 - @inject is equivalent to explicit lookups in the current context."""
from __future__ import annotations

import ast
import copy

from ..cfg import iter_own
from ..dataflow import ReachingDefs
from ..loader import AnalysisError, ClassInfo, FuncInfo, dotted, walk_own
from .common import Anchors, call_name, include_rules, is_const, names_in
from .discharge import controlling_tests
from .tables import enclosing_loops


class _Norm(ast.NodeTransformer):
    def visit_Await(self, node):
        return self.visit(node.value)

    def visit_Attribute(self, node):
        self.generic_visit(node)
        if node.attr in ("get_resource", "get_resource_nowait"):
            return ast.copy_location(ast.Attribute(value=node.value, attr="LOOKUP", ctx=node.ctx), node)
        return node

    def visit_Name(self, node):
        if node.id in ("resolve_forward_refs",):
            return node
        return node


class _CanonNames(ast.NodeTransformer):
    def __init__(self, locals_: set, fixed: dict | None = None):
        self.locals = locals_
        self.names: dict = dict(fixed or {})

    def visit_Name(self, node):
        if node.id not in self.locals:
            return node
        if node.id not in self.names:
            self.names[node.id] = f"v{len(self.names)}"
        return ast.copy_location(ast.Name(id=self.names[node.id], ctx=node.ctx), node)


def norm_body(f: FuncInfo) -> str:
    """The body with lookup names unified and local variables renamed canonically, as a sorted
    multiset of top-level statements: neither the names of locals nor the order of the
    (independent) top-level statements is part of the comparison - a statement that used a
    name before its definition would not survive any test."""
    body = copy.deepcopy(f.node.body)
    mod = ast.Module(body=body, type_ignores=[])
    mod = _Norm().visit(mod)
    locals_ = {n.id for n in ast.walk(mod) if isinstance(n, ast.Name) and isinstance(n.ctx, (ast.Store, ast.Del))}
    # number the locals in an order that does not depend on the statement order: walk the
    # statements sorted by their text with every local blanked out
    blank = {x: "_" for x in locals_}
    keyed = sorted(mod.body, key=lambda st: ast.unparse(_CanonNames(locals_, blank).visit(copy.deepcopy(st))))
    canon = _CanonNames(locals_)
    for st in keyed:
        canon.visit(copy.deepcopy(st))
    fixed = dict(canon.names)
    out = [ast.unparse(_CanonNames(locals_, fixed).visit(st)) for st in mod.body]
    return "\n".join(sorted(out))


def run(ctx, skip_includes: bool = False) -> None:
    rep = ctx.rep
    a = ctx.a
    an = Anchors(a)
    inject = ctx.p.public("inject")
    resource = ctx.p.public("resource")
    if not isinstance(inject, FuncInfo) or not isinstance(resource, FuncInfo):
        raise AnalysisError("anchor-missing inject / resource")
    nested = inject.nested
    get_async = an.ctx_method("get_resource")
    get_sync = an.ctx_method("get_resource_nowait")

    def lookups(f: FuncInfo) -> list:
        out = []
        for c in walk_own(f.node):
            if isinstance(c, ast.Call) and call_name(c) in ("get_resource", "get_resource_nowait"):
                out.append(c)
        return out

    resolvers = [f for f in nested.values() if lookups(f)]
    sync_r = [f for f in resolvers if not f.is_async]
    async_r = [f for f in resolvers if f.is_async]
    if len(sync_r) != 1 or len(async_r) != 1:
        rep.violate("C19.R1", inject, inject.node, f"expected one synchronous and one asynchronous resolver inside inject (found {len(sync_r)} / {len(async_r)})")
        return
    RS, RA = sync_r[0], async_r[0]

    # ------------------------------------------------------------------ R1 resolvers agree
    for R, want, other in ((RS, "get_resource_nowait", "get_resource"), (RA, "get_resource", "get_resource_nowait")):
        ls = lookups(R)
        rep.check("C19.R1", all(call_name(c) == want for c in ls), R, ls[0], f"the {'async' if R.is_async else 'sync'} resolver uses only {want}", f"the {'async' if R.is_async else 'sync'} resolver calls {other}")
        if R.is_async:
            awaited = [x.value for x in walk_own(R.node) if isinstance(x, ast.Await)]
            rep.check("C19.R1", all(any(c is w for w in awaited) for c in ls), R, ls[0], "every lookup of the async resolver is awaited", "an async lookup is not awaited")
        # current_context() at call time, inside the resolver
        ccs = [c for c in walk_own(R.node) if isinstance(c, ast.Call) and call_name(c) == "current_context"]
        rep.check("C19.R1", len(ccs) == 1, R, ccs[0] if ccs else R.node, "the resolver takes current_context() itself, i.e. at call time", "the resolver does not look up the current context at call time")
        recv_ok = True
        ctx_vars = {n.targets[0].id for n in walk_own(R.node) if isinstance(n, ast.Assign) and isinstance(n.value, ast.Call) and call_name(n.value) == "current_context" and isinstance(n.targets[0], ast.Name)}
        for c in ls:
            base = c.func.value if isinstance(c.func, ast.Attribute) else None
            if not ((isinstance(base, ast.Name) and base.id in ctx_vars) or (isinstance(base, ast.Call) and call_name(base) == "current_context")):
                recv_ok = False
        rep.check("C19.R1", recv_ok, R, ls[0], "lookups go to the context current at call time", "lookups go to something else than the context current at call time")
        # per-parameter lookup shape
        cfg = a.cfg(R)
        loops = [l for l in walk_own(R.node) if isinstance(l, ast.For)]
        # the table of marked parameters: what inject's own body fills per parameter
        marked_tables = {n.targets[0].value.id for n in walk_own(inject.node) if isinstance(n, ast.Assign) and len(n.targets) == 1 and isinstance(n.targets[0], ast.Subscript) and isinstance(n.targets[0].value, ast.Name)}
        if not loops or not (names_in(loops[0].iter) & marked_tables):
            rep.violate("C19.R1", R, R.node, "the resolver does not iterate over all marked parameters")
            continue
        lp = loops[0]
        dep_v = lp.target.elts[1].id if isinstance(lp.target, ast.Tuple) and len(lp.target.elts) == 2 else None
        arg_v = lp.target.elts[0].id if isinstance(lp.target, ast.Tuple) and len(lp.target.elts) == 2 else None
        rep.check("C19.R1", isinstance(lp.iter, ast.Call) and call_name(lp.iter) == "items", R, lp, "every marked parameter is resolved", "not every marked parameter is resolved")
        for c in ls:
            pos = [ast.unparse(x) for x in c.args]
            rep.check("C19.R1", pos == [f"{dep_v}.cls", f"{dep_v}.name"], R, c, "lookup arguments are (annotated type, marker name)", f"lookup arguments are ({', '.join(pos)})")
            kw = {k.arg: k.value for k in c.keywords}
            from .discharge import controlling_conditions

            cn = cfg.nodes_containing(c)
            cts = controlling_conditions(cfg, cn[0]) if cn else []
            opt_tests = [(e_, "t" if truth else "f") for e_, truth, _t in cts if ast.unparse(e_) == f"{dep_v}.optional"]
            if "optional" in kw:
                ok = is_const(kw["optional"], True) and any(lab == "t" for t, lab in opt_tests)
                ok = ok or (ast.unparse(kw["optional"]) == f"{dep_v}.optional")
                rep.check("C19.R1", ok, R, c, "optional=True is passed exactly for Optional-annotated parameters", "a lookup passes optional=True for a parameter that is not Optional: a missing non-optional resource no longer behaves like the explicit lookup (e.g. does not wait inside a component, or yields None)")
            else:
                ok = any(lab == "f" for t, lab in opt_tests)
                rep.check("C19.R1", ok, R, c, "the plain lookup is used exactly for non-optional parameters", "an Optional parameter is looked up without optional=True (raises instead of yielding None)")
        # the result lands under the parameter's name
        stores = [n for n in walk_own(R.node) if isinstance(n, ast.Assign) and isinstance(n.targets[0], ast.Subscript)]
        rep.check("C19.R1", bool(stores) and all(ast.unparse(s.targets[0].slice) == arg_v for s in stores), R, stores[0] if stores else R.node, "each resolved value is bound to its own parameter name", "resolved values are bound to the wrong names")
        extra_raise = [r for r in walk_own(R.node) if isinstance(r, ast.Raise)]
        rep.check("C19.R1", not extra_raise, R, extra_raise[0] if extra_raise else R.node, "the resolver adds no failure logic of its own", "the resolver raises by itself instead of delegating the miss to the lookup (the lookup's own behaviour, e.g. waiting inside a component context, is bypassed)")
    ns, na = norm_body(RS), norm_body(RA)
    rep.check("C19.R1", ns == na, RA, RA.node, "sync and async resolver bodies are identical up to await / lookup name", "the sync and async resolvers differ beyond `await` and the lookup name")
    rep.floor("C19.R1", len(lookups(RS)) + len(lookups(RA)), 4)
    # forward references resolved once, before the first lookup
    rfr = [f for f in nested.values() if any(isinstance(c, ast.Call) and call_name(c) == "get_type_hints" for c in walk_own(f.node))]
    if not rfr:
        rep.violate("C19.R1", inject, inject.node, "type hints (forward references) are never resolved")
    else:
        FR = rfr[0]
        # the "already resolved" flag: what the resolving function sets to True when it is done
        flags = {t.id for n in walk_own(FR.node) if isinstance(n, ast.Assign) and isinstance(n.value, ast.Constant) and n.value.value is True for t in n.targets if isinstance(t, ast.Name)}
        flags |= {x for x in flags}

        def reaches_fr(g, depth=2) -> bool:
            if g is FR:
                return True
            if depth == 0:
                return False
            return any(cal.kind == "func" and cal.func is not g and reaches_fr(cal.func, depth - 1) for _, cal in a.func_calls(g))

        for R in (RS, RA):
            cfg = a.cfg(R)
            # directly, or through a helper (e.g. one that takes a lock and re-checks the flag)
            calls = [n for n in cfg.live_nodes() if any(cal.kind == "func" and reaches_fr(cal.func) for _, cal in a.node_calls(R, cfg, n))]
            lk = [n for c in lookups(R) for n in cfg.nodes_containing(c)]
            guarded = bool(calls) and any((names_in(t.ast) & flags) if flags else "resolved" in ast.unparse(t.ast) for t, lab in controlling_tests(cfg, calls[0]))
            rep.check("C19.R1", guarded and all(lk_n.id in cfg.reach([calls[0].id]) for lk_n in lk), R, calls[0].ast if calls else R.node, "forward references are resolved (once) before the first lookup", "annotations are not resolved before the lookups (or on every call)")

        # ------------------------------------------------------------------ R4 optional detection
        fcfg = a.cfg(FR)
        frd = ReachingDefs(a, FR)
        loops = [l for l in walk_own(FR.node) if isinstance(l, ast.For)]
        lp = loops[0] if loops else None
        dep_v = lp.target.elts[1].id if lp is not None and isinstance(lp.target, ast.Tuple) else None
        opt_stores = [n for n in fcfg.live_nodes() if n.kind == "stmt" and isinstance(n.ast, ast.Assign) and any(isinstance(t, ast.Attribute) and t.attr == "optional" and dotted(t.value) == dep_v for t in n.ast.targets)]
        cls_stores = [n for n in fcfg.live_nodes() if n.kind == "stmt" and isinstance(n.ast, ast.Assign) and any(isinstance(t, ast.Attribute) and t.attr == "cls" and dotted(t.value) == dep_v for t in n.ast.targets)]
        if lp is None or not opt_stores:
            rep.violate("C19.R4", FR, FR.node, "Optional[T] / T | None annotations are never recognised")
        else:
            head = [n for n in fcfg.live_nodes() if n.kind == "for_next" and n.ast is lp][0]
            be = [d for d, lab in head.succ if lab == "t"]
            for sn in opt_stores + cls_stores:
                v = sn.ast.value
                if isinstance(v, ast.Constant):
                    if sn in opt_stores:
                        from ..facts import Facts

                        ffacts = Facts(a, FR, frd)
                        lists = [n_.targets[0].id for n_ in walk_own(FR.node) if isinstance(n_, ast.Assign) and isinstance(n_.value, ast.ListComp) and "type(None)" in ast.unparse(n_.value) and isinstance(n_.targets[0], ast.Name)]
                        ok = v.value is True and bool(lists) and ffacts.implied(sn.id, ast.parse(f"len({lists[0]}) == 1", mode="eval").body, True, within=[head.id])
                        rep.check("C19.R4", ok, FR, sn.ast, "optional is set only for a union with exactly one non-None member", "optional is set under the wrong condition")
                    continue
                # a variable: it must be (re)defined on every path of the current iteration
                for nm in [x.id for x in ast.walk(v) if isinstance(x, ast.Name)]:
                    defs_in_loop = [d for d in frd.defs_of if nm in frd.defs_of[d] and d in fcfg.reach(be, avoid=[head.id])]
                    if not defs_in_loop:
                        continue
                    ok = fcfg.all_paths_pass(be[0], [sn.id], defs_in_loop, edge_ok=lambda s, d, lab: lab not in ("e", "h"))
                    outside = [d for d in frd.at(sn.id, nm) if d not in fcfg.reach(be, avoid=[head.id]) and d != -1]
                    rep.check("C19.R4", ok, FR, sn.ast, f"`{nm}` is computed afresh for every parameter", f"`{nm}` is not reassigned on every iteration (initialised once before the loop): its value leaks from one marked parameter to the next - a non-optional parameter after an Optional one becomes optional")
            # union detection and the error branch
            utests = [t for t in fcfg.live_nodes() if t.kind == "test" and "Union" in ast.unparse(t.ast)]
            rep.check("C19.R4", bool(utests) and any("UnionType" in ast.unparse(t.ast) and "Union" in ast.unparse(t.ast).replace("UnionType", "") for t in utests), FR, utests[0].ast if utests else FR.node, "typing.Union and PEP 604 unions are both recognised", "a union spelling (typing.Union / X | None) is not recognised")
            raises = [n for n in fcfg.live_nodes() if n.kind == "stmt" and isinstance(n.ast, ast.Raise) and "TypeError" in ast.unparse(n.ast)]
            rep.check("C19.R4", bool(raises), FR, raises[0].ast if raises else FR.node, "other unions raise TypeError", "unions with several non-None members are accepted")
            filt = [c for c in walk_own(FR.node) if isinstance(c, ast.ListComp) and "type(None)" in ast.unparse(c)]
            rep.check("C19.R4", bool(filt) and any(isinstance(cond, ast.Compare) and isinstance(cond.ops[0], ast.IsNot) for cond in filt[0].generators[0].ifs), FR, filt[0] if filt else FR.node, "None members are filtered out before counting", "the None member is not removed from the union")
            narrow = [n for n in walk_own(FR.node) if isinstance(n, ast.Subscript) and is_const(n.slice, 0)]
            rep.check("C19.R4", bool(narrow), FR, narrow[0] if narrow else FR.node, "the looked-up class is narrowed to the non-None member", "the class of an Optional parameter is not narrowed to T")

    # ------------------------------------------------------------------ R2 wrapper selection and pass-through
    icfg = a.cfg(inject)
    wrappers = [f for f in nested.values() if any(cal.kind == "func" and cal.func in (RS, RA) for _, cal in a.func_calls(f))]
    sync_w = [w for w in wrappers if not w.is_async]
    async_w = [w for w in wrappers if w.is_async]
    if len(sync_w) != 1 or len(async_w) != 1:
        rep.violate("C19.R2", inject, inject.node, "expected one sync and one async wrapper")
    else:
        WS, WA = sync_w[0], async_w[0]
        for Wf, Rf in ((WS, RS), (WA, RA)):
            uses = [cal.func for _, cal in a.func_calls(Wf) if cal.kind == "func" and cal.func in (RS, RA)]
            rep.check("C19.R2", uses == [Rf], Wf, Wf.node, f"the {'async' if Wf.is_async else 'sync'} wrapper uses the {'async' if Rf.is_async else 'sync'} resolver", f"the {'async' if Wf.is_async else 'sync'} wrapper resolves through the {'async' if uses and uses[0].is_async else 'sync'} resolver")
            calls = [c for c in walk_own(Wf.node) if isinstance(c, ast.Call) and isinstance(c.func, ast.Name) and c.func.id == inject.params[0]]
            if not calls:
                rep.violate("C19.R2", Wf, Wf.node, "the wrapper never calls the original function")
                continue
            c = calls[0]
            star = [x for x in c.args if isinstance(x, ast.Starred)]
            kws = [k for k in c.keywords if k.arg is None]
            va, vk = Wf.node.args.vararg.arg if Wf.node.args.vararg else None, Wf.node.args.kwarg.arg if Wf.node.args.kwarg else None
            ok = len(c.args) == 1 and len(star) == 1 and isinstance(star[0].value, ast.Name) and star[0].value.id == va and len(c.keywords) == 2 and len(kws) == 2 and isinstance(kws[0].value, ast.Name) and kws[0].value.id == vk
            rep.check("C19.R2", ok, Wf, c, "the original is called with *args, **kwargs unchanged plus the resolved mapping", "the wrapper alters the caller's arguments")
            rets = [r for r in walk_own(Wf.node) if isinstance(r, ast.Return) and r.value is not None]
            okr = bool(rets) and (any(x is c for x in ast.walk(rets[0].value)))
            if Wf.is_async:
                okr = okr and isinstance(rets[0].value, ast.Await) and rets[0].value.value is c
            rep.check("C19.R2", okr, Wf, rets[0] if rets else Wf.node, "the wrapper returns (awaits) the original's result", "the wrapper does not return the original's result")
        # selection
        rets = [n for n in icfg.live_nodes() if n.kind == "stmt" and isinstance(n.ast, ast.Return) and isinstance(n.ast.value, ast.Name)]
        for r in rets:
            nm = r.ast.value.id
            from .discharge import controlling_conditions

            co = [(e_, "t" if truth else "f") for e_, truth, _t in controlling_conditions(icfg, r) if "iscoroutinefunction" in ast.unparse(e_)]
            if nm == WA.name:
                rep.check("C19.R2", any(lab == "t" for t, lab in co), inject, r.ast, "coroutine functions get the async wrapper", "the async wrapper is not selected by iscoroutinefunction(func)")
            elif nm == WS.name:
                rep.check("C19.R2", any(lab == "f" for t, lab in co), inject, r.ast, "plain functions get the sync wrapper", "the sync wrapper is not selected for plain functions")
        co_tests = [t for t in icfg.live_nodes() if t.kind == "test" and "iscoroutinefunction" in ast.unparse(t.ast)]
        def _strip_not(e):
            while isinstance(e, ast.UnaryOp) and isinstance(e.op, ast.Not):
                e = e.operand
            return e

        rep.check("C19.R2", bool(co_tests) and ast.unparse(_strip_not(co_tests[0].ast)) == f"iscoroutinefunction({inject.params[0]})", inject, co_tests[0].ast if co_tests else inject.node, "the choice is made on the decorated function", "the wrapper choice does not test the decorated function")

    # ------------------------------------------------------------------ R3 decoration-time validation
    raises = [n for n in icfg.live_nodes() if n.kind == "stmt" and isinstance(n.ast, ast.Raise) and "TypeError" in ast.unparse(n.ast)]
    kinds = {"posonly": False, "annotation": False, "uncalled": False}
    for r in raises:
        from .discharge import controlling_conditions

        for e_, truth, _t in controlling_conditions(icfg, r):
            txt = ast.unparse(e_)
            if "POSITIONAL_ONLY" in txt and truth:
                kinds["posonly"] = True
            if "annotation" in txt and "empty" in txt and truth:
                kinds["annotation"] = True
            if f"is {resource.name}" in txt and truth:
                kinds["uncalled"] = True
    msgs = {"posonly": "a positional-only marked parameter", "annotation": "a marked parameter without annotation", "uncalled": "an uncalled `resource` default"}
    for k, okk in kinds.items():
        rep.check("C19.R3", okk, inject, raises[0].ast if raises else inject.node, f"{msgs[k]} is rejected with TypeError when the decorator is applied", f"{msgs[k]} is not rejected at decoration time")
    rep.floor("C19.R3", len(raises), 3)
    wr_rets = [n for n in icfg.live_nodes() if n.kind == "stmt" and isinstance(n.ast, ast.Return)]
    loops = [n for n in icfg.live_nodes() if n.kind == "for_next"]
    rep.check("C19.R3", bool(loops) and all(icfg.dominates(loops[0].id, r.id) for r in wr_rets), inject, inject.node, "the whole signature is validated before a wrapper is returned", "a wrapper can be returned before the signature was validated")
    in_nested = [r for f in nested.values() for r in walk_own(f.node) if isinstance(r, ast.Raise) and ("positional-only" in ast.unparse(r) or "missing the type annotation" in ast.unparse(r))]
    rep.check("C19.R3", not in_nested, inject, in_nested[0] if in_nested else inject.node, "validation happens in inject's own body (decoration time)", "validation moved into a nested function (call time)")
    marked = [t for t in icfg.live_nodes() if t.kind == "test" and "isinstance" in ast.unparse(t.ast) and ".default" in ast.unparse(t.ast)]
    rep.check("C19.R3", bool(marked), inject, marked[0].ast if marked else inject.node, "marked parameters are those whose default is a resource() marker", "marked parameters are not recognised by their default value")

    # ------------------------------------------------------------------ R5 marker
    rets = [r for r in walk_own(resource.node) if isinstance(r, ast.Return) and r.value is not None]
    ok = bool(rets) and isinstance(rets[0].value, ast.Call) and a.callee(resource, rets[0].value).kind == "class" and [ast.unparse(x) for x in rets[0].value.args] == [resource.params[0]]
    rep.check("C19.R5", ok, resource, rets[0] if rets else resource.node, "resource(name) returns a dependency marker carrying that name", "resource(name) does not produce a marker with the given name")
    d = resource.param_default(resource.params[0])
    rep.check("C19.R5", d is not None and is_const(d, "default"), resource, resource.node, "the default resource name is 'default'", f"resource()'s default name is {ast.unparse(d) if d is not None else 'missing'}")
    # the lookups themselves: shared with C02 (one API, one implementation)
    if not skip_includes:
        include_rules(ctx, "c02", "C19.R1", only=("C02.R3",), drop_adopted_from=("C19.R1",))
    rep.assume("typing.get_type_hints resolves the annotations as the interpreter would; a caller passing an injected parameter explicitly is out of scope")
