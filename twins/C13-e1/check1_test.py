"""
Property C13 checks accompanying refactor1.diff (Context.__repr__, teardown summary
logging, richer "stack corruption" message).

Must pass on the unchanged source and with refactor1 applied.
"""

from __future__ import annotations

import logging
import sys
from typing import Any

import anyio
import pytest
from anyio import CancelScope, get_cancelled_exc_class

from asphalt.core import Context, ResourceNotFound

if sys.version_info < (3, 11):
    from exceptiongroup import BaseExceptionGroup

pytestmark = pytest.mark.anyio()


def snapshot(ctx: Context) -> tuple[Any, ...]:
    return (
        dict(ctx._resources),
        dict(ctx._resource_factories),
        list(ctx._teardown_callbacks),
    )


def flatten(exc: BaseException) -> list[BaseException]:
    if isinstance(exc, BaseExceptionGroup):
        result: list[BaseException] = []
        for sub in exc.exceptions:
            result.extend(flatten(sub))
        return result

    return [exc]


async def assert_all_ops_rejected(ctx: Context, message: str) -> None:
    before = snapshot(ctx)
    with pytest.raises(RuntimeError, match=message):
        ctx.add_resource("x", "rejected")
    with pytest.raises(RuntimeError, match=message):
        ctx.add_resource("x", "rejected", teardown_callback=lambda: None)
    with pytest.raises(RuntimeError, match=message):
        ctx.add_resource_factory(lambda: 1.5, "rejected", types=[float])
    with pytest.raises(RuntimeError, match=message):
        ctx.get_resource_nowait(int)
    with pytest.raises(RuntimeError, match=message):
        ctx.get_resource_nowait(int, optional=True)
    with pytest.raises(RuntimeError, match=message):
        await ctx.get_resource(int)
    with pytest.raises(RuntimeError, match=message):
        await ctx.get_resource(int, optional=True)
    with pytest.raises(RuntimeError, match=message):
        ctx.add_teardown_callback(lambda: None)
    with pytest.raises(RuntimeError, match=message):
        ctx.add_teardown_callback(lambda exc: None, True)
    assert snapshot(ctx) == before


async def assert_reentry_rejected(ctx: Context, message: str) -> None:
    state = ctx._state
    with pytest.raises(RuntimeError, match=message):
        await ctx.__aenter__()
    with pytest.raises(RuntimeError, match=message):
        async with ctx:
            pytest.fail("the block must not be run")
    assert ctx._state is state


@pytest.fixture(autouse=True)
def debug_logging(caplog: pytest.LogCaptureFixture) -> None:
    # Make sure any debug logging in the lifecycle code paths is actually exercised
    caplog.set_level(logging.DEBUG, "asphalt.core")


async def test_never_entered() -> None:
    ctx = Context()
    assert not ctx.closed
    await assert_all_ops_rejected(ctx, "has not been entered yet")
    assert not ctx.closed
    # it can still be entered afterwards, exactly once
    async with ctx:
        assert not ctx.closed
        ctx.add_resource(1)
        await assert_reentry_rejected(ctx, "already been entered")
        assert ctx.get_resource_nowait(int) == 1

    assert ctx.closed
    await assert_all_ops_rejected(ctx, "already been closed")
    await assert_reentry_rejected(ctx, "already been closed")


async def test_teardown_phase_ops_and_order() -> None:
    events: list[Any] = []

    async def late_callback() -> None:
        events.append("late")
        assert ctx.closed

    async def callback(exc: BaseException | None) -> None:
        events.append(("cb", exc))
        assert ctx.closed
        await anyio.sleep(0)
        # everything but add_resource_factory is allowed
        ctx.add_resource("during", "td", teardown_callback=lambda: events.append("res"))
        assert ctx.get_resource_nowait(str, "td") == "during"
        assert await ctx.get_resource(str, "td") == "during"
        assert ctx.get_resource_nowait(int) == 5
        assert await ctx.get_resource(float) == 2.5
        with pytest.raises(ResourceNotFound):
            ctx.get_resource_nowait(bytes)
        ctx.add_teardown_callback(late_callback)
        factories = dict(ctx._resource_factories)
        with pytest.raises(RuntimeError, match="is being torn down"):
            ctx.add_resource_factory(lambda: b"", types=[bytes])
        assert ctx._resource_factories == factories
        await assert_reentry_rejected(ctx, "is being torn down")

    async with Context() as ctx:
        ctx.add_resource(5)
        ctx.add_resource_factory(lambda: 2.5, types=[float])
        ctx.add_teardown_callback(lambda: events.append("first-added"))
        ctx.add_teardown_callback(callback, True)
        assert not ctx.closed

    assert ctx.closed
    assert events == [("cb", None), "late", "res", "first-added"]
    await assert_all_ops_rejected(ctx, "already been closed")


async def test_closed_after_failing_teardown() -> None:
    boom = ValueError("boom")
    ran: list[str] = []

    def failing() -> None:
        ran.append("failing")
        raise boom

    with pytest.raises(BaseExceptionGroup) as excinfo:
        async with Context() as ctx:
            ctx.add_teardown_callback(lambda: ran.append("other"))
            ctx.add_teardown_callback(failing)

    assert flatten(excinfo.value) == [boom]
    assert ran == ["failing", "other"]
    assert ctx.closed
    await assert_all_ops_rejected(ctx, "already been closed")
    await assert_reentry_rejected(ctx, "already been closed")


async def test_closed_after_failing_block_and_failing_teardown() -> None:
    seen: list[BaseException | None] = []
    block_error = KeyError("block")
    td_error = ValueError("teardown")

    def failing(exc: BaseException | None) -> None:
        seen.append(exc)
        raise td_error

    with pytest.raises(BaseException) as excinfo:
        async with Context() as ctx:
            ctx.add_teardown_callback(failing, True)
            raise block_error

    assert seen == [block_error]
    assert td_error in flatten(excinfo.value)
    assert ctx.closed
    await assert_all_ops_rejected(ctx, "already been closed")


async def test_closed_after_cancelled_exit() -> None:
    seen: list[BaseException | None] = []

    async def callback(exc: BaseException | None) -> None:
        seen.append(exc)
        assert ctx.closed
        ctx.add_resource("still allowed")
        # a checkpoint in a cancelled scope raises again; the context must still close
        await anyio.sleep(0)

    with CancelScope() as scope:
        async with Context() as ctx:
            ctx.add_teardown_callback(callback, True)
            scope.cancel()
            await anyio.sleep(1)

    assert scope.cancelled_caught
    assert len(seen) == 1
    assert isinstance(seen[0], get_cancelled_exc_class())
    assert ctx.closed
    await assert_all_ops_rejected(ctx, "already been closed")
    await assert_reentry_rejected(ctx, "already been closed")


async def test_leaving_with_open_child_is_an_error() -> None:
    async with Context() as root:
        with pytest.raises(RuntimeError, match="Context stack corruption detected"):
            async with Context() as middle:
                child1 = Context()
                child2 = Context()
                await child1.__aenter__()
                await child2.__aenter__()
                assert child1.parent is middle and child2.parent is middle

        # the parent is closed all the same, the children are not
        assert middle.closed
        await assert_all_ops_rejected(middle, "already been closed")
        assert not child1.closed and not child2.closed
        child1.add_resource("x")
        assert child1.get_resource_nowait(str) == "x"
        assert not root.closed


async def test_open_child_error_even_if_teardown_fails_or_block_raises() -> None:
    async with Context():
        with pytest.raises(BaseException) as excinfo:
            async with Context() as parent:
                parent.add_teardown_callback(lambda: 1 / 0)
                await Context().__aenter__()

        # the teardown error propagates (it is raised first), context is closed
        assert any(isinstance(e, ZeroDivisionError) for e in flatten(excinfo.value))
        assert parent.closed

        with pytest.raises(RuntimeError, match="Context stack corruption detected"):
            async with Context() as parent2:
                await Context().__aenter__()
                raise LookupError("block failed")

        assert parent2.closed


async def test_properly_nested_children_are_fine() -> None:
    async with Context() as parent:
        async with Context() as child:
            async with Context() as grandchild:
                assert grandchild.parent is child
            assert grandchild.closed and not child.closed
        assert child.closed
        async with Context() as child2:
            assert child2.parent is parent
    assert parent.closed
