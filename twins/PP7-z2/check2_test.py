"""
Behaviour checks for refactoring 2 (``Signal.dispatch`` split into phases: bound check,
event type check, stamping, delivery with queue-full warning).

Everything goes through the public API of ``asphalt.core``.
"""

from __future__ import annotations

import inspect
import time
import warnings
from datetime import timezone
from typing import Any

import pytest
from anyio import WouldBlock, create_task_group, fail_after, wait_all_tasks_blocked

from asphalt.core import (
    Event,
    Signal,
    SignalQueueFull,
    UnboundSignal,
    stream_events,
)

pytestmark = pytest.mark.anyio()

QUEUE_FULL = "Queue full ({}) when trying to send dispatched event to subscriber"


class NumberEvent(Event):
    def __init__(self, number: Any = None) -> None:
        self.number = number


class SpecialNumberEvent(NumberEvent):
    pass


class OtherEvent(Event):
    pass


class Source:
    changed = Signal(NumberEvent)
    other = Signal(OtherEvent)

    class Nested:
        inner = Signal(SpecialNumberEvent)


def dispatch_here(signal: Signal[Any], event: Event) -> int:
    """Dispatch, and return the line number of the dispatch call."""
    lineno = inspect.currentframe().f_lineno + 1  # type: ignore[union-attr]
    signal.dispatch(event)
    return lineno


# ---------------------------------------------------------------------------
# phase 1 and 2: bound check, then type check
# ---------------------------------------------------------------------------


@pytest.mark.parametrize(
    "event, event_name",
    [
        pytest.param("foo", "str", id="str"),
        pytest.param(None, "NoneType", id="none"),
        pytest.param(Event(), "asphalt.core.Event", id="baseclass"),
        pytest.param(OtherEvent(), f"{__name__}.OtherEvent", id="sibling"),
        pytest.param(NumberEvent, f"{__name__}.NumberEvent", id="class-not-instance"),
    ],
)
def test_event_type_mismatch(event: Any, event_name: str) -> None:
    source = Source()
    with pytest.raises(TypeError) as exc_info:
        source.changed.dispatch(event)

    assert str(exc_info.value) == (
        f"Event type mismatch: event ({event_name}) is not a subclass of "
        f"{__name__}.NumberEvent"
    )
    assert exc_info.value.args == (str(exc_info.value),)
    assert exc_info.value.__cause__ is None
    assert exc_info.value.__context__ is None


def test_event_type_mismatch_names_nested_class() -> None:
    nested = Source.Nested()
    with pytest.raises(TypeError) as exc_info:
        nested.inner.dispatch(NumberEvent(1))  # type: ignore[arg-type]

    assert str(exc_info.value) == (
        f"Event type mismatch: event ({__name__}.NumberEvent) is not a subclass of "
        f"{__name__}.SpecialNumberEvent"
    )


def test_unbound_check_comes_before_type_check() -> None:
    with pytest.raises(UnboundSignal, match="not bound to an instance"):
        Source.changed.dispatch("not an event")  # type: ignore[arg-type]

    with pytest.raises(UnboundSignal):
        Signal(NumberEvent).dispatch(NumberEvent(1))


async def test_mismatching_event_is_neither_stamped_nor_delivered() -> None:
    source = Source()
    event = OtherEvent()
    async with source.changed.stream_events(max_queue_size=1) as stream:
        with pytest.raises(TypeError):
            source.changed.dispatch(event)  # type: ignore[arg-type]

        for attribute in ("source", "topic", "time"):
            assert not hasattr(event, attribute)

        # The queue is still empty: this one fits, and is the first one out
        with warnings.catch_warnings():
            warnings.simplefilter("error")
            source.changed.dispatch(NumberEvent("good"))

        with fail_after(1):
            assert (await stream.__anext__()).number == "good"


async def test_subclass_events_are_accepted() -> None:
    source = Source()
    async with source.changed.stream_events() as stream:
        event = SpecialNumberEvent(7)
        source.changed.dispatch(event)
        with fail_after(1):
            assert await stream.__anext__() is event


# ---------------------------------------------------------------------------
# phase 3: stamping
# ---------------------------------------------------------------------------


def test_stamping_without_listeners() -> None:
    source = Source()
    event = NumberEvent(1)
    before = time.time()
    assert source.changed.dispatch(event) is None
    after = time.time()
    assert event.source is source
    assert event.topic == "changed"
    assert type(event.time) is float
    assert before <= event.time <= after
    assert event.utc_timestamp.tzinfo is timezone.utc
    assert repr(event) == f"NumberEvent(source={source!r}, topic='changed')"


def test_redispatch_restamps() -> None:
    first, second = Source(), Source()
    event = NumberEvent(1)
    first.changed.dispatch(event)
    first_time = event.time
    assert event.source is first
    second.changed.dispatch(event)
    assert event.source is second
    assert event.time >= first_time


async def test_stamping_order_and_failure() -> None:
    """source, topic, time are set in that order, all before any delivery."""
    log: list[str] = []

    class TracingEvent(NumberEvent):
        fail_on: str | None = None

        def __setattr__(self, name: str, value: Any) -> None:
            log.append(name)
            if name == self.fail_on:
                raise RuntimeError(f"cannot set {name}")

            super().__setattr__(name, value)

    class TracingSource:
        sig = Signal(TracingEvent)

    source = TracingSource()
    async with source.sig.stream_events(max_queue_size=1) as stream:
        event = TracingEvent(1)
        del log[:]
        source.sig.dispatch(event)
        assert log == ["source", "topic", "time"]

        failing = TracingEvent(2)
        failing.fail_on = "topic"
        del log[:]
        with pytest.raises(RuntimeError, match="cannot set topic"):
            source.sig.dispatch(failing)

        assert log == ["source", "topic"]
        assert failing.source is source
        assert not hasattr(failing, "topic")
        assert not hasattr(failing, "time")

        # the failing event was not delivered (it would have caused a warning, as the
        # queue of one already holds the first event)
        with warnings.catch_warnings(record=True) as caught:
            warnings.simplefilter("always")
            failing.fail_on = "time"
            with pytest.raises(RuntimeError, match="cannot set time"):
                source.sig.dispatch(failing)

        assert caught == []
        assert failing.topic == "sig"
        with fail_after(1):
            assert await stream.__anext__() is event


def test_source_is_none_once_owner_is_gone() -> None:
    import gc

    class Owner:
        sig = Signal(Event)

    owner = Owner()
    bound = owner.sig
    del owner
    gc.collect()
    event = Event()
    bound.dispatch(event)
    assert event.source is None
    assert event.topic == "sig"


# ---------------------------------------------------------------------------
# phase 4: delivery
# ---------------------------------------------------------------------------


async def test_every_subscriber_gets_the_same_event_object() -> None:
    source = Source()
    async with source.changed.stream_events() as stream1, stream_events(
        [source.other, source.changed]
    ) as stream2, source.changed.stream_events(
        lambda event: event.number > 1
    ) as stream3:
        events = [NumberEvent(1), NumberEvent(2)]
        for event in events:
            source.changed.dispatch(event)

        with fail_after(1):
            assert await stream1.__anext__() is events[0]
            assert await stream1.__anext__() is events[1]
            assert await stream2.__anext__() is events[0]
            assert await stream2.__anext__() is events[1]
            assert await stream3.__anext__() is events[1]


async def test_queue_full_warning_points_at_the_dispatching_code() -> None:
    source = Source()
    async with source.changed.stream_events(max_queue_size=2):
        source.changed.dispatch(NumberEvent(1))
        source.changed.dispatch(NumberEvent(2))
        with warnings.catch_warnings(record=True) as caught:
            warnings.simplefilter("always")
            lineno = dispatch_here(source.changed, NumberEvent(3))

    assert len(caught) == 1
    warning = caught[0]
    assert warning.category is SignalQueueFull
    assert isinstance(warning.message, SignalQueueFull)
    assert str(warning.message) == QUEUE_FULL.format(2)
    assert warning.filename == __file__
    assert warning.lineno == lineno


async def test_queue_full_warning_registry_belongs_to_the_dispatching_module() -> None:
    """With the "default" action, a warning is shown once per dispatching location."""
    source = Source()
    globals().pop("__warningregistry__", None)
    async with source.changed.stream_events(max_queue_size=1):
        source.changed.dispatch(NumberEvent(0))
        with warnings.catch_warnings(record=True) as caught:
            warnings.simplefilter("default")
            linenos = {dispatch_here(source.changed, NumberEvent(i)) for i in range(4)}
            lineno = inspect.currentframe().f_lineno + 1  # type: ignore[union-attr]
            source.changed.dispatch(NumberEvent(5))

    assert [w.lineno for w in caught] == [linenos.pop(), lineno]
    registry = globals()["__warningregistry__"]
    text = QUEUE_FULL.format(1)
    assert (text, SignalQueueFull, lineno) in registry


async def test_queue_full_as_error_stops_the_delivery() -> None:
    source = Source()
    async with source.changed.stream_events(
        max_queue_size=1
    ) as slow, source.changed.stream_events(max_queue_size=5) as fast:
        first = NumberEvent(1)
        source.changed.dispatch(first)
        second = NumberEvent(2)
        with warnings.catch_warnings():
            warnings.simplefilter("error")
            with pytest.raises(SignalQueueFull) as exc_info:
                source.changed.dispatch(second)

        assert str(exc_info.value) == QUEUE_FULL.format(1)
        assert isinstance(exc_info.value.__context__, WouldBlock)
        # stamped, but the subscribers after the slow one were not served
        assert second.topic == "changed"
        third = NumberEvent(3)
        with pytest.warns(SignalQueueFull):
            source.changed.dispatch(third)

        with fail_after(1):
            assert await slow.__anext__() is first
            assert await fast.__anext__() is first
            assert await fast.__anext__() is third


async def test_full_subscriber_does_not_starve_later_ones() -> None:
    source = Source()
    async with source.changed.stream_events(
        max_queue_size=5
    ) as early, source.changed.stream_events(
        max_queue_size=0
    ), source.changed.stream_events(max_queue_size=1) as late:
        with warnings.catch_warnings(record=True) as caught:
            warnings.simplefilter("always")
            source.changed.dispatch(NumberEvent(1))
            source.changed.dispatch(NumberEvent(2))

        assert [str(w.message) for w in caught] == [
            QUEUE_FULL.format(0),
            QUEUE_FULL.format(0),
            QUEUE_FULL.format(1),
        ]
        with fail_after(1):
            assert (await early.__anext__()).number == 1
            assert (await early.__anext__()).number == 2
            assert (await late.__anext__()).number == 1


async def test_zero_size_queue_hands_over_to_a_waiting_receiver() -> None:
    source = Source()
    received = []

    async def receiver() -> None:
        async with source.changed.stream_events(max_queue_size=0) as stream:
            async for event in stream:
                received.append(event.number)
                if event.number == "stop":
                    return

    async with create_task_group() as tg:
        tg.start_soon(receiver)
        await wait_all_tasks_blocked()
        with warnings.catch_warnings(record=True) as caught:
            warnings.simplefilter("always")
            source.changed.dispatch(NumberEvent(1))
            # the receiver has not been scheduled yet, so it is not waiting again
            source.changed.dispatch(NumberEvent(2))
            await wait_all_tasks_blocked()
            source.changed.dispatch(NumberEvent("stop"))

        assert [str(w.message) for w in caught] == [QUEUE_FULL.format(0)]

    assert received == [1, "stop"]


async def test_infinite_queue_never_warns() -> None:
    import math

    source = Source()
    async with source.changed.stream_events(max_queue_size=math.inf) as stream:  # type: ignore[arg-type]
        with warnings.catch_warnings():
            warnings.simplefilter("error")
            for number in range(500):
                source.changed.dispatch(NumberEvent(number))

        with fail_after(1):
            assert (await stream.__anext__()).number == 0


async def test_dispatch_from_another_task_while_receiver_waits() -> None:
    source = Source()
    received: list[Any] = []

    async def receiver() -> None:
        received.append(await source.changed.wait_event(lambda e: e.number == 2))

    async with create_task_group() as tg:
        tg.start_soon(receiver)
        await wait_all_tasks_blocked()
        for number in range(4):
            source.changed.dispatch(NumberEvent(number))

    assert [event.number for event in received] == [2]
    # the one-shot subscriber is gone
    with warnings.catch_warnings():
        warnings.simplefilter("error")
        for number in range(100):
            source.changed.dispatch(NumberEvent(number))


async def test_dispatch_during_iteration_of_subscribers_snapshot() -> None:
    """
    A filter that dispatches on the same signal re-enters dispatch while the first
    delivery has long finished; events keep their dispatch order.
    """
    source = Source()

    def echo_filter(event: NumberEvent) -> bool:
        if event.number < 3:
            source.changed.dispatch(NumberEvent(event.number + 1))

        return True

    async with source.changed.stream_events(echo_filter) as stream:
        source.changed.dispatch(NumberEvent(0))
        numbers = []
        with fail_after(1):
            async for event in stream:
                numbers.append(event.number)
                if event.number == 3:
                    break

    assert numbers == [0, 1, 2, 3]
