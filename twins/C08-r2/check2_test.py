"""
Behaviour check for refactoring 2 (control flow of the service task finalizer
restructured: ``None`` handled first, the combined ``except BaseException`` clause with
an ``isinstance`` test split into two ``except`` clauses).

Focuses on the error paths of the teardown action: ordinary exceptions are logged and
the task is cancelled; non-``Exception`` base exceptions are swallowed silently and the
task is cancelled as well; in every case the task is awaited before earlier registered
teardown callbacks run, and nothing leaks out of the ``async with`` block.
"""

from __future__ import annotations

import logging
from typing import Any

import anyio
import pytest
from anyio import fail_after, sleep
from pytest import LogCaptureFixture

from asphalt.core import Context, start_service_task

pytestmark = pytest.mark.anyio()


class Oddball(BaseException):
    """A base exception that is not an ``Exception``."""


def make_service(log: list[str], cleanup_delay: float = 0.03) -> Any:
    async def service() -> None:
        log.append("task started")
        try:
            await anyio.sleep_forever()
        except anyio.get_cancelled_exc_class():
            log.append("task cancelled")
            with anyio.CancelScope(shield=True):
                await sleep(cleanup_delay)

            log.append("task cleaned up")
            raise

    return service


@pytest.mark.parametrize("use_async", [False, True], ids=["sync", "async"])
@pytest.mark.parametrize(
    "exc_class", [ValueError, Oddball], ids=["exception", "baseexception"]
)
async def test_raising_action(
    use_async: bool, exc_class: type[BaseException], caplog: LogCaptureFixture
) -> None:
    caplog.set_level(logging.ERROR, "asphalt.core")
    log: list[str] = []

    def sync_action() -> None:
        log.append("action")
        raise exc_class("boom")

    async def async_action() -> None:
        log.append("action")
        await sleep(0.01)
        raise exc_class("boom")

    with fail_after(3):
        async with Context() as ctx:
            ctx.add_teardown_callback(lambda: log.append("early cb"))
            await start_service_task(
                make_service(log),
                "svc",
                teardown_action=async_action if use_async else sync_action,
            )
            ctx.add_teardown_callback(lambda: log.append("late cb"))

        log.append("left block")

    assert log == [
        "task started",
        "late cb",
        "action",
        "task cancelled",
        "task cleaned up",
        "early cb",
        "left block",
    ]
    if exc_class is ValueError:
        assert len(caplog.records) == 1
        record = caplog.records[0]
        assert record.levelno == logging.ERROR
        assert record.getMessage().startswith("Error calling teardown callback (")
        assert record.getMessage().endswith("_action) for service task 'svc'")
        assert record.exc_info is not None
        assert isinstance(record.exc_info[1], ValueError)
        assert str(record.exc_info[1]) == "boom"
    else:
        assert caplog.records == []


async def test_none_action_does_not_cancel_or_call_anything() -> None:
    log: list[str] = []

    async def service() -> None:
        try:
            await sleep(0.1)
        except BaseException:
            log.append("task interrupted")
            raise

        log.append("task finished by itself")

    with fail_after(3):
        async with Context() as ctx:
            ctx.add_teardown_callback(lambda: log.append("early cb"))
            await start_service_task(service, "svc", teardown_action=None)

        log.append("left block")

    assert log == ["task finished by itself", "early cb", "left block"]


async def test_task_already_finished_before_teardown() -> None:
    log: list[str] = []

    async def service() -> None:
        log.append("task ran")

    def action() -> None:
        log.append("action")

    with fail_after(3):
        async with Context():
            await start_service_task(service, "a", teardown_action="cancel")
            await start_service_task(service, "b", teardown_action=action)
            await start_service_task(service, "c", teardown_action=None)
            await sleep(0.02)
            log.append("body done")

    assert log == ["task ran", "task ran", "task ran", "body done", "action"]


async def test_callable_comparing_equal_to_cancel_is_treated_as_cancel() -> None:
    """A callable whose ``__eq__`` claims equality with ``"cancel"`` is not called."""
    log: list[str] = []

    class Weird:
        def __eq__(self, other: object) -> bool:
            return other == "cancel"

        def __ne__(self, other: object) -> bool:
            return not self.__eq__(other)

        __hash__ = None  # type: ignore[assignment]

        def __call__(self) -> None:
            log.append("called")

    with fail_after(3):
        async with Context():
            await start_service_task(make_service(log, 0), "svc", teardown_action=Weird())

    assert log == ["task started", "task cancelled", "task cleaned up"]


async def test_crashing_service_task_takes_context_down() -> None:
    log: list[str] = []
    crash = anyio.Event()

    async def service() -> None:
        await crash.wait()
        raise RuntimeError("service crashed")

    def action() -> None:
        log.append("action")

    with fail_after(3):
        with pytest.raises(RuntimeError, match="^service crashed$"):
            async with Context() as ctx:
                ctx.add_teardown_callback(lambda: log.append("early cb"))
                await start_service_task(service, "svc", teardown_action=action)
                crash.set()
                await anyio.sleep_forever()

    # The body of the root context was cancelled by the host task group; the action is
    # still invoked (once) and the earlier callback still runs after it
    assert log == ["action", "early cb"]


async def test_exception_in_body_still_stops_tasks_in_order() -> None:
    log: list[str] = []
    stop = anyio.Event()

    async def service() -> None:
        await stop.wait()
        await sleep(0.03)
        log.append("task finished")

    async def action() -> None:
        log.append("action")
        stop.set()

    with fail_after(3):
        with pytest.raises(KeyError):
            async with Context():
                async with Context() as inner:
                    inner.add_teardown_callback(
                        lambda exc: log.append(f"early cb {type(exc).__name__}"),
                        pass_exception=True,
                    )
                    await start_service_task(service, "svc", teardown_action=action)
                    raise KeyError("body failed")

    assert log == ["action", "task finished", "early cb KeyError"]
