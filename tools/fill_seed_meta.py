#!/usr/bin/env python3
"""Fill `summary` and `what_it_needs_to_manifest` of seeded/<id>/meta.json from the
sub-agent's own notes (agent_notes.md) for seeds where they are still missing.  The change
number comes from meta["change_number"] when present, else from the id (odd suffix = 1,
even = 2).  Nothing is invented: the text is quoted from the notes, shortened."""
import glob
import json
import os
import re
import sys

VERIF = os.path.dirname(os.path.dirname(os.path.abspath(__file__)))


def section(notes: str, n: int) -> str:
    parts = re.split(r"\n(?=## )", "\n" + notes)
    for p in parts:
        head = p.strip().split("\n", 1)[0]
        if re.match(r"##\s+(Change|CHANGE|change)\s*%d\b" % n, head) or re.match(r"##\s+.*\bchange%d\.diff" % n, head):
            return p.strip()
    return ""


def clean(t: str, limit: int) -> str:
    t = re.sub(r"\s+", " ", t.replace("`", "")).strip()
    t = re.sub(r"^\*\*[^*]*\*\*\s*", "", t)
    if len(t) > limit:
        cut = t[:limit]
        t = cut[: cut.rfind(" ")] + " ..."
    return t


def main() -> None:
    force = "--force" in sys.argv
    for mp in sorted(glob.glob(os.path.join(VERIF, "seeded", "*", "meta.json"))):
        m = json.load(open(mp))
        if not force and m.get("summary") and m.get("what_it_needs_to_manifest", "").strip() not in ("", "see agent_notes.md"):
            continue
        d = os.path.dirname(mp)
        np_ = os.path.join(d, "agent_notes.md")
        if not os.path.exists(np_):
            continue
        notes = open(np_).read()
        suffix = int(re.search(r"-s(\d+)$", m["id"]).group(1))
        n = m.get("change_number") or (1 if suffix % 2 == 1 else 2)
        sec = section(notes, n)
        if not sec:
            print("no section for", m["id"])
            continue
        head = sec.split("\n", 1)[0]
        summary = clean(re.sub(r"^##\s+(Change|CHANGE|change)\s*\d+\s*[-:(]*\s*", "", head), 200)
        summary = re.sub(r"^\(?change\d\.diff\)?\s*[-:]*\s*", "", summary).strip(" -:\"")
        what = re.search(r"(?:\*\*What it does\.?\*\*|### What it does)\s*(.+?)(?:\n\n|\n###|\n\*\*)", sec, re.S)
        if what:
            summary = f"{summary}: {clean(what.group(1), 420)}" if len(summary) < 90 else summary
        needs = re.search(r"(?:\*\*What is needed[^*]*\*\*|### What is needed[^\n]*\n)\s*(.+?)(?:\n\n(?=\*\*|#)|\n###|\n## |\Z)", sec, re.S)
        if not needs:
            needs = re.search(r"(?:What is needed[^:\n]*:|Needed to manifest:|what is needed for it to manifest:)\s*(.+?)(?:\n\n|\n#|\Z)", sec, re.S | re.I)
        m["summary"] = summary
        if needs:
            m["what_it_needs_to_manifest"] = clean(needs.group(1), 600)
        json.dump(m, open(mp, "w"), indent=1)
        print(m["id"], "|", summary[:110], "|", m["what_it_needs_to_manifest"][:110])


if __name__ == "__main__":
    main()
