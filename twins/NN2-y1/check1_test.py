"""
Behaviour checks for refactoring 1 (everyday clean-up of the teardown callback
machinery in ``asphalt.core._context``).

Everything is exercised through the public API only.
"""

from __future__ import annotations

import sys
from typing import Any, Optional

import pytest

from asphalt.core import (
    Context,
    NoCurrentContext,
    add_teardown_callback,
    context_teardown,
    current_context,
)

if sys.version_info < (3, 11):
    from exceptiongroup import BaseExceptionGroup, ExceptionGroup

pytestmark = pytest.mark.anyio()

TEARDOWN_MESSAGE = "Exceptions were raised during context teardown"


class TestCurrentContext:
    def test_no_context(self) -> None:
        with pytest.raises(NoCurrentContext) as exc_info:
            current_context()

        assert str(exc_info.value) == "there is no active context"

    async def test_nesting(self) -> None:
        pytest.raises(NoCurrentContext, current_context)
        async with Context() as outer:
            assert current_context() is outer
            async with Context() as inner:
                assert current_context() is inner
                assert inner.parent is outer

            assert current_context() is outer

        pytest.raises(NoCurrentContext, current_context)

    async def test_restored_after_error(self) -> None:
        with pytest.raises(KeyError):
            async with Context() as outer:
                try:
                    async with Context():
                        raise ValueError("inner")
                except ValueError:
                    assert current_context() is outer

                raise KeyError("outer")

        pytest.raises(NoCurrentContext, current_context)


class TestModuleLevelAddTeardownCallback:
    def test_no_context(self) -> None:
        called = []
        with pytest.raises(NoCurrentContext):
            add_teardown_callback(lambda: called.append(1))

        assert not called

    async def test_targets_innermost_context(self) -> None:
        events: list[str] = []
        async with Context():
            add_teardown_callback(lambda: events.append("outer"))
            async with Context():
                add_teardown_callback(lambda: events.append("inner"))

            assert events == ["inner"]
            events.append("between")

        assert events == ["inner", "between", "outer"]

    async def test_pass_exception_flag_forwarded(self) -> None:
        received: list[Any] = []
        error = RuntimeError("boom")
        with pytest.raises(RuntimeError) as exc_info:
            async with Context():
                add_teardown_callback(lambda *args: received.append(("plain", args)))
                add_teardown_callback(
                    lambda *args: received.append(("positional", args)), True
                )
                add_teardown_callback(
                    lambda *args: received.append(("keyword", args)),
                    pass_exception=True,
                )
                raise error

        assert exc_info.value is error
        assert received == [
            ("keyword", (error,)),
            ("positional", (error,)),
            ("plain", ()),
        ]

    async def test_not_callable(self) -> None:
        async with Context():
            with pytest.raises(TypeError, match="^callback must be a callable$"):
                add_teardown_callback(None)  # type: ignore[arg-type]


class TestTeardownCallbacks:
    async def test_lifo_sync_and_async(self) -> None:
        events: list[Any] = []

        def sync_callback() -> str:
            events.append("sync")
            return "ignored return value"

        async def async_callback() -> None:
            events.append("async")

        async def async_callback_exc(exc: Optional[BaseException]) -> None:
            events.append(("async_exc", exc))

        def sync_callback_exc(exc: Optional[BaseException]) -> None:
            events.append(("sync_exc", exc))

        async with Context() as ctx:
            ctx.add_teardown_callback(sync_callback)
            ctx.add_teardown_callback(async_callback)
            ctx.add_teardown_callback(async_callback_exc, True)
            ctx.add_teardown_callback(sync_callback_exc, pass_exception=True)
            assert events == []

        assert events == [("sync_exc", None), ("async_exc", None), "async", "sync"]

    async def test_truthy_pass_exception_values(self) -> None:
        received: list[Any] = []
        async with Context() as ctx:
            ctx.add_teardown_callback(lambda *a: received.append(("one", a)), 1)  # type: ignore[arg-type]
            ctx.add_teardown_callback(lambda *a: received.append(("zero", a)), 0)  # type: ignore[arg-type]
            ctx.add_teardown_callback(lambda *a: received.append(("str", a)), "x")  # type: ignore[arg-type]
            ctx.add_teardown_callback(lambda *a: received.append(("none", a)), None)  # type: ignore[arg-type]

        assert received == [
            ("none", ()),
            ("str", (None,)),
            ("zero", ()),
            ("one", (None,)),
        ]

    async def test_errors_are_grouped(self) -> None:
        events: list[str] = []
        first = ValueError("first")
        second = KeyError("second")

        def fail_first() -> None:
            events.append("fail_first")
            raise first

        async def fail_second() -> None:
            events.append("fail_second")
            raise second

        async with Context():
            with pytest.raises(ExceptionGroup) as exc_info:
                async with Context() as ctx:
                    ctx.add_teardown_callback(lambda: events.append("last"))
                    ctx.add_teardown_callback(fail_first)
                    ctx.add_teardown_callback(lambda: events.append("middle"))
                    ctx.add_teardown_callback(fail_second)

        assert events == ["fail_second", "middle", "fail_first", "last"]
        assert exc_info.value.message == TEARDOWN_MESSAGE
        assert exc_info.value.exceptions == (second, first)
        assert exc_info.value.__cause__ is None
        assert exc_info.value.__suppress_context__ is True

    async def test_single_error_still_grouped_in_child_context(self) -> None:
        error = ValueError("only")

        def fail() -> None:
            raise error

        async with Context():
            with pytest.raises(ExceptionGroup) as exc_info:
                async with Context() as child:
                    child.add_teardown_callback(fail)

            assert exc_info.value.message == TEARDOWN_MESSAGE
            assert exc_info.value.exceptions == (error,)

    async def test_error_group_chained_from_original(self) -> None:
        original = RuntimeError("original")
        teardown_error = ValueError("teardown")
        received: list[Any] = []

        def fail(exc: Optional[BaseException]) -> None:
            received.append(exc)
            raise teardown_error

        async with Context():
            with pytest.raises(ExceptionGroup) as exc_info:
                async with Context() as ctx:
                    ctx.add_teardown_callback(fail, True)
                    raise original

        assert received == [original]
        assert exc_info.value.message == TEARDOWN_MESSAGE
        assert exc_info.value.exceptions == (teardown_error,)
        assert exc_info.value.__cause__ is original

    async def test_base_exception_makes_base_group(self) -> None:
        class Custom(BaseException):
            pass

        error = Custom()

        def fail() -> None:
            raise error

        async with Context():
            with pytest.raises(BaseExceptionGroup) as exc_info:
                async with Context() as ctx:
                    ctx.add_teardown_callback(fail)

            assert not isinstance(exc_info.value, ExceptionGroup)
            assert exc_info.value.exceptions == (error,)

    async def test_original_exception_propagates_when_callbacks_succeed(self) -> None:
        original = LookupError("original")
        events: list[Any] = []
        with pytest.raises(LookupError) as exc_info:
            async with Context() as ctx:
                ctx.add_teardown_callback(events.append, True)
                raise original

        assert exc_info.value is original
        assert events == [original]
        assert ctx.closed


class TestContextTeardownDecorator:
    async def test_basic(self) -> None:
        events: list[Any] = []

        @context_teardown
        async def start(value: int, *, key: str) -> Any:
            events.append(("started", value, key, current_context()))
            exc = yield
            events.append(("finished", exc))

        async with Context() as ctx:
            assert await start(1, key="k") is None
            assert events == [("started", 1, "k", ctx)]

        assert events == [("started", 1, "k", ctx), ("finished", None)]

    def test_wrong_kind_of_function(self) -> None:
        async def not_a_generator() -> None:
            pass

        with pytest.raises(TypeError) as exc_info:
            context_teardown(not_a_generator)  # type: ignore[arg-type]

        assert str(exc_info.value) == (
            f"{__name__}.TestContextTeardownDecorator.test_wrong_kind_of_function."
            f"<locals>.not_a_generator must be an async generator function"
        )

    async def test_metadata_copied(self) -> None:
        @context_teardown
        async def start() -> Any:
            """Docstring."""
            yield

        assert start.__name__ == "start"
        assert start.__doc__ == "Docstring."
        assert start.__wrapped__.__name__ == "start"  # type: ignore[attr-defined]
