"""C14 - component configuration is a layered deep merge that fully determines the tree."""
from __future__ import annotations

import ast

from ..cfg import iter_own
from ..dataflow import ReachingDefs
from ..loader import exc_expr, AnalysisError, ClassInfo, FuncInfo, dotted, walk_own
from ..ownership import BORROWED, NAMES, Ownership
from .common import Anchors, call_name, enum_member, is_const, names_in, self_attr
from .c17 import merge_func


def child_table_attr(ctx, an: Anchors) -> tuple:
    """(Component class, attribute add_component stores into)"""
    comp = ctx.p.public("Component")
    if not isinstance(comp, ClassInfo):
        raise AnalysisError("anchor-missing public class Component")
    addc = comp.methods.get("add_component")
    if addc is None:
        raise AnalysisError("anchor-missing Component.add_component")
    from .tables import expand_alias

    for n, m in ctx.a.func_mutations(addc):
        if m.kind == "store" and m.depth_key:
            for path in expand_alias(addc, m.path):
                if len(path) == 2 and path[0] == "self":
                    return comp, addc, path[1], m
    raise AnalysisError("anchor-missing hard-coded child table written by add_component")


def component_state(ctx, an: Anchors) -> tuple:
    """(state attribute on the component context, enum class name)"""
    for w in an.ComponentContext.methods.values():
        for n in walk_own(w.node):
            if isinstance(n, ast.Compare) and len(n.ops) == 1 and isinstance(n.ops[0], (ast.Is, ast.Eq, ast.In)):
                l, r = n.left, n.comparators[0]
                if isinstance(r, (ast.Tuple, ast.Set, ast.List)) and r.elts:
                    r = r.elts[0]
                if self_attr(l) and isinstance(r, ast.Attribute) and isinstance(r.value, ast.Name) and r.value.id in ctx.p.classes:
                    return self_attr(l), r.value.id
    raise AnalysisError("anchor-missing component state test in ComponentContext")


def remap_spec(ctx, an: Anchors, w: FuncInfo):
    """How wrapper `w` rewrites its `name` parameter before forwarding:
    (where: FuncInfo, cfg node of the rewrite, condition expr or None, value expr, cfg node in w)
    Follows one level of helper extraction: name = self._helper(name)."""
    a = ctx.a
    wcfg = a.cfg(w)
    for n in wcfg.live_nodes():
        if n.kind == "stmt" and isinstance(n.ast, ast.Assign) and any(isinstance(t, ast.Name) and t.id == "name" for t in n.ast.targets):
            v = n.ast.value
            if isinstance(v, ast.Call):
                c = a.callee(w, v)
                if c.kind == "func" and c.func.cls is not None and v.args and isinstance(v.args[0], ast.Name) and v.args[0].id == "name":
                    h = c.func
                    hcfg = a.cfg(h)
                    hp = [x for x in h.params if x != "self"][0]
                    rets = [x for x in hcfg.live_nodes() if x.kind == "stmt" and isinstance(x.ast, ast.Return) and x.ast.value is not None]
                    remap_rets = [x for x in rets if not (isinstance(x.ast.value, ast.Name) and x.ast.value.id == hp)]
                    if len(remap_rets) == 1:
                        from .discharge import controlling_conditions, subst

                        conds = [(subst(e_, {hp: ast.Name(id="name", ctx=ast.Load())}), truth) for e_, truth, _t in controlling_conditions(hcfg, remap_rets[0])]
                        return h, remap_rets[0], conds, remap_rets[0].ast.value, n
                    return h, None, None, None, n
            from .discharge import controlling_conditions

            conds = [(e_, truth) for e_, truth, _t in controlling_conditions(wcfg, n)]
            return w, n, conds, v, n
    return None


def run(ctx) -> None:
    rep = ctx.rep
    a = ctx.a
    an = Anchors(a)
    init = an.init_component
    starter = an.starter
    comp, addc, table_attr, addc_store = child_table_attr(ctx, an)
    merge = merge_func(ctx)
    cfg = a.cfg(init)
    rd = ReachingDefs(a, init)
    cfg_param = None
    for p_ in init.params:
        ann = init.param_annotation(p_)
        if ann is not None and ("Mapping" in ast.unparse(ann) or "dict" in ast.unparse(ann)):
            cfg_param = p_
    if cfg_param is None:
        raise AnalysisError("anchor-missing configuration parameter of the component init function")

    # ------------------------------------------------------------------ R1 merge direction
    merges = [(call, c) for call, c in a.func_calls(init) if c.kind == "func" and c.func is merge]
    if not merges:
        rep.violate("C14.R1", init, init.node, "hard-coded child configuration is never merged with the external `components` configuration")
    for call, c in merges:
        if len(call.args) != 2:
            rep.unrecognised("C14.R1", init, call, "merge_config is not called with two positional arguments")
            continue
        nid = rd.node_of(call)
        c0 = rd.closure_at(nid, call.args[0])
        c1 = rd.closure_at(nid, call.args[1])

        def hard(cl):
            return any(x.endswith("." + table_attr) for x in cl.attrs)

        def external(cl):
            return cfg_param in cl.names and "components" in cl.consts

        if hard(c0) and external(c1) and not hard(c1) and not external(c0):
            rep.hold("C14.R1", init, call, f"merge_config(<hard-coded {table_attr}>, <external config['components']>): external configuration overrides add_component() defaults")
        elif hard(c1) and external(c0):
            rep.violate("C14.R1", init, call, "merge arguments are swapped: hard-coded add_component() values override the external configuration (merge_config is right-biased)")
        else:
            rep.unrecognised("C14.R1", init, call, f"cannot attribute the merge arguments (arg0 hard={hard(c0)} ext={external(c0)}; arg1 hard={hard(c1)} ext={external(c1)})")
    rep.floor("C14.R1", len(merges), 1)
    # the layered merge is only as good as merge_config itself: deep, right-biased, pure
    from .common import include_rules

    include_rules(ctx, "c17", "C14.R1", only=("C17.R2", "C17.R3"))

    # ------------------------------------------------------------------ R2 config-only children are created, recursion
    rec_calls = [(call, c) for call, c in a.func_calls(init) if c.kind == "func" and c.func is init]
    if not rec_calls:
        rep.violate("C14.R2", init, init.node, "child components are never instantiated recursively")
    for call, c in rec_calls:
        from .tables import enclosing_loops

        loops = [l for l in enclosing_loops(init, call) if isinstance(l[2], ast.For)]
        if not loops:
            rep.violate("C14.R2", init, call, "recursive instantiation is not inside a loop over the child configurations")
            continue
        it, tgt, loopnode = loops[-1]
        it_node = [n for n in cfg.live_nodes() if n.kind == "for_iter" and n.ast is it]
        cl = rd.closure_at(it_node[0].id, it) if it_node else None
        merged = cl is not None and any(mc in cl.calls for mc, _ in merges)
        rep.check("C14.R2", merged, init, loopnode, "the child loop iterates the merged mapping (hard-coded + external-only children)", "the child loop does not iterate the result of merge_config: children that appear only in the external configuration (or only in add_component) are not created")
        # the child's own configuration is passed down
        loop_vars = set(names_in(tgt))
        nid = rd.node_of(call)
        passed = False
        for arg in list(call.args) + [k.value for k in call.keywords]:
            cl2 = rd.closure_at(nid, arg)
            if any(isinstance(e, ast.Name) and e.id in loop_vars for ex in cl2.exprs for e in ast.walk(ex)) and any(
                p_ == cfg_param for p_ in [_param_for_arg(init, call, arg)]
            ):
                passed = True
        rep.check("C14.R2", passed, init, call, "each child is instantiated with its own (merged) configuration", "the recursive call does not receive the child's configuration")
        # None means empty configuration
        none_ok = False
        for t in cfg.live_nodes():
            if t.kind == "test" and isinstance(t.ast, ast.Compare) and isinstance(t.ast.left, ast.Name) and isinstance(t.ast.comparators[0], ast.Constant) and t.ast.comparators[0].value is None:
                from .common import def_use_closure as _duc

                if t.ast.left.id in loop_vars or (_duc(init, t.ast.left) & set(loop_vars)):
                    none_ok = True
        if not none_ok:
            for e in walk_own(loopnode):
                if isinstance(e, ast.BoolOp) and isinstance(e.op, ast.Or) and isinstance(e.values[0], ast.Name) and e.values[0].id in loop_vars:
                    none_ok = True
        rep.check("C14.R2", none_ok, init, loopnode, "a None child configuration is treated as empty", "a None child configuration (config-only child) is not handled")

    # ------------------------------------------------------------------ R3 caller's configuration is not modified
    start = an.start_component
    sc_param = None
    for p_ in start.params:
        ann = start.param_annotation(p_)
        if ann is not None and "dict" in ast.unparse(ann):
            sc_param = p_
    if sc_param is None:
        raise AnalysisError("anchor-missing config parameter of start_component")

    def attr_level(func, expr):
        # hard-coded child tables are owned by the component instance: never to be edited either
        if isinstance(expr, ast.Attribute) and expr.attr == table_attr:
            return BORROWED
        return None

    own = Ownership(a, attr_level=attr_level)
    res = own.analyse(start, {sc_param: BORROWED})
    for v in res.violations:
        rep.violate("C14.R3", v.func, v.node, f"{v.what}: start_component modifies the configuration it was given (or a component's hard-coded child table)", path=v.chain)
    if not res.violations:
        rep.hold("C14.R3", start, start.node, f"no mutation of a value derived from `{sc_param}` (Borrowed) in start_component or anything it passes it to ({own.calls_followed} call contexts analysed)")
    # count the examined mutation sites in init with config FreshShallow
    r2 = own.analyse(init, {cfg_param: 1})
    rep.floor("C14.R3", r2.mutation_sites, 4)
    rep.extra["c14_mutation_sites_examined"] = r2.mutation_sites

    # ------------------------------------------------------------------ R4 default-name remap
    state_attr, state_enum = component_state(ctx, an)
    sigs = {}
    for name in ("add_resource", "add_resource_factory"):
        w = an.ComponentContext.methods.get(name)
        if w is None:
            rep.violate("C14.R4", None, None, f"ComponentContext does not override {name}: default names are never remapped")
            continue
        wcfg = a.cfg(w)
        delegate = [n for n in wcfg.live_nodes() if any(c.kind == "func" and c.func is an.ctx_method(name) for _, c in a.node_calls(w, wcfg, n))]
        spec = remap_spec(ctx, an, w)
        if spec is None:
            rep.violate("C14.R4", w, w.node, "the default resource name is never remapped to the alias suffix")
            continue
        where, rnode, cond, val, wn = spec
        if rnode is None:
            rep.unrecognised("C14.R4", where, where.node, "remap helper has an unrecognised shape")
            continue

        class _RN:
            ast = rnode.ast

        rn = _RN()
        conds = cond  # normalised [(expr, truth)]
        if not conds:
            rep.violate("C14.R4", where, rnode.ast, "the name is remapped unconditionally: explicitly named resources are renamed too")
            continue
        tests = [(wn, "n")]
        has_default = any(truth and isinstance(c, ast.Compare) and isinstance(c.left, ast.Name) and c.left.id == "name" and isinstance(c.ops[0], ast.Eq) and is_const(c.comparators[0], "default") for c, truth in conds)
        st = [(c, truth) for c, truth in conds if isinstance(c, ast.Compare) and self_attr(c.left) == state_attr and isinstance(c.ops[0], (ast.Is, ast.Eq))]
        st_member = enum_member(st[0][0].comparators[0], state_enum) if st and st[0][1] else None
        cond_txt = " and ".join(("" if truth else "not ") + ast.unparse(c) for c, truth in conds)
        ok = has_default and st_member == "starting" and len(conds) == 2
        rep.check(
            "C14.R4",
            ok,
            where,
            rnode.ast,
            "name is remapped iff it equals 'default' and the component is in its start() phase",
            f"remap condition `{cond_txt}` is not (name == 'default' and state is starting): "
            + ("explicitly named resources are remapped" if not has_default else "resources added outside start() (e.g. in prepare()) are remapped, or never"),
        )
        rep.check("C14.R4", self_attr(val) is not None, where, rn.ast, f"remapped to self.{self_attr(val)}", f"remapped to `{ast.unparse(val)}`")
        # the remap is decided before forwarding: for the inline form the controlling test
        # dominates the delegate, for the helper form the assignment from the helper does
        if where is w:
            from .discharge import controlling_tests as _ct

            doms = [t for t, lab in _ct(wcfg, rnode) if lab == "t"]
        else:
            doms = [wn]
        rep.check("C14.R4", bool(delegate) and bool(doms) and all(wcfg.dominates(t.id, d.id) for t in doms for d in delegate), w, rn.ast, "the remap is decided before forwarding to the real context", "the delegate call is reachable without passing the remap")
        # the remapped name is what is forwarded
        for d in delegate:
            for call, c in a.node_calls(w, wcfg, d):
                if c.kind == "func" and c.func is an.ctx_method(name):
                    fwd = (len(call.args) >= 2 and isinstance(call.args[1], ast.Name) and call.args[1].id == "name") or any(k.arg == "name" and isinstance(k.value, ast.Name) and k.value.id == "name" for k in call.keywords)
                    rep.check("C14.R4", fwd, w, call, "the (possibly remapped) name is forwarded", "the delegate does not receive the remapped name")
        sigs[name] = (sorted(("" if truth else "not ") + ast.unparse(c) for c, truth in conds), ast.unparse(val))
    if len(sigs) == 2:
        vals = list(sigs.values())
        rep.check("C14.R4", vals[0] == vals[1], an.ComponentContext.methods["add_resource_factory"], None, "add_resource and add_resource_factory remap identically", f"siblings disagree: add_resource uses {vals[0]}, add_resource_factory uses {vals[1]}")
    # phase window of the state in the starter
    _phase_window(ctx, an, starter, state_attr, state_enum)
    # remap value computed in init: suffix after the first '/', else 'default'
    _remap_value(ctx, an, init, rd, rec_calls)

    # ------------------------------------------------------------------ R5 type resolution
    _type_resolution(ctx, an, init, rd, cfg_param)

    # ------------------------------------------------------------------ R6 add_component
    val = addc_store.node.value if isinstance(addc_store.node, ast.Assign) else None
    ok = isinstance(val, ast.Dict) and any(k is None for k in val.keys)
    type_ok = False
    if isinstance(val, ast.Dict):
        for k, v in zip(val.keys, val.values):
            if isinstance(k, ast.Constant) and k.value == "type" and isinstance(v, ast.BoolOp) and isinstance(v.op, ast.Or) and [ast.unparse(x) for x in v.values] == ["type", "alias"]:
                type_ok = True
    rep.check("C14.R6", ok and type_ok, addc, addc_store.node, "add_component stores {'type': type or alias, **config} under the alias", f"add_component stores `{ast.unparse(val) if val is not None else '?'}`")
    acfg = a.cfg(addc)
    store_node = acfg.nodes_containing(addc_store.node)
    raises = [n for n in acfg.live_nodes() if n.kind == "stmt" and isinstance(n.ast, ast.Raise)]
    from .common import def_use_closure

    def _membership_conjuncts(e) -> list:
        # the `alias in <table>` tests that must hold for `e` to be true (conjuncts of an `and`)
        if isinstance(e, ast.BoolOp) and isinstance(e.op, ast.And):
            return [c for v in e.values for c in _membership_conjuncts(v)]
        if isinstance(e, ast.Compare) and len(e.ops) == 1 and isinstance(e.ops[0], ast.In):
            return [e]
        return []

    dup = any(
        any(table_attr in ast.unparse(c_) or f"self.{table_attr}" in def_use_closure(addc, c_.comparators[0]) for c_ in _membership_conjuncts(t.ast))
        and any(isinstance(acfg.nodes[d].ast, ast.Raise) for d, lab in t.succ if lab == "t")
        for t in acfg.live_nodes()
        if t.kind == "test" and isinstance(t.ast, ast.AST)
    )
    rep.check("C14.R6", dup, addc, addc.node, "a duplicate alias is rejected", "a duplicate alias silently replaces the earlier child")
    started_flag = [t for t in acfg.live_nodes() if t.kind == "test" and self_attr(t.ast) is not None and "start" in self_attr(t.ast)]
    rep.check("C14.R6", bool(started_flag) and bool(store_node) and acfg.dominates(started_flag[0].id, store_node[0].id), addc, addc.node, "add_component after start_component is rejected", "children can still be added after the component was started")
    if started_flag:
        flag = self_attr(started_flag[0].ast)
        scfg = a.cfg(starter)
        sets = [n for n in scfg.live_nodes() if n.kind == "stmt" and isinstance(n.ast, ast.Assign) and any(isinstance(t, ast.Attribute) and t.attr == flag for t in n.ast.targets) and is_const(n.ast.value, True)]
        awaits = [n for n in scfg.live_nodes() if a.node_checkpoints(starter, scfg, n)]
        dom_sets = [s_ for s_ in sets if all(scfg.dominates(s_.id, w.id) for w in awaits)]
        rep.check("C14.R6", bool(dom_sets), starter, (dom_sets or sets)[0].ast if sets else starter.node, "the started flag is set before the starter's first checkpoint", "the started flag is not set before the component begins to start")

    # ------------------------------------------------------------------ R7 determinism
    nondet = {"random", "uuid", "secrets", "time.time", "time.monotonic", "os.urandom", "builtins.id", "builtins.hash", "builtins.set", "builtins.frozenset"}
    scanned = 0
    resolve = ctx.p.classes["PluginContainer"].methods.get("resolve") if "PluginContainer" in ctx.p.classes else None
    for f in [init, addc, merge] + ([resolve] if resolve else []):
        for call in [x for x in ast.walk(f.node) if isinstance(x, ast.Call)]:
            c = a.callee(f, call)
            scanned += 1
            if c.kind in ("ext", "extmethod") and any(c.name == x or c.name.startswith(x + ".") for x in nondet):
                rep.violate("C14.R7", f, call, f"{c.name}() makes the constructed tree depend on something other than the configuration")
    if not any(i.rule == "C14.R7" for i in rep.instances):
        rep.hold("C14.R7", init, init.node, f"no source of nondeterminism among the {scanned} calls of the tree-building functions")


def _param_for_arg(callee: FuncInfo, call: ast.Call, arg) -> str | None:
    pos = [x.arg for x in callee.node.args.posonlyargs + callee.node.args.args]
    for i, a_ in enumerate(call.args):
        if a_ is arg and i < len(pos):
            return pos[i]
    for kw in call.keywords:
        if kw.value is arg:
            return kw.arg
    return None


def _phase_window(ctx, an: Anchors, starter: FuncInfo, state_attr: str, state_enum: str) -> None:
    rep = ctx.rep
    a = ctx.a
    cfg = a.cfg(starter)
    rd = ReachingDefs(a, starter)
    ctx_param = starter.params[0]
    var = f"{ctx_param}.{state_attr}"
    comp_cls = ctx.p.public("Component")
    prepare_nodes, start_nodes = [], []
    for n in cfg.live_nodes():
        root = cfg.own_ast(n)
        if root is None:
            continue
        for e in iter_own(root):
            if isinstance(e, ast.Call) and isinstance(e.func, ast.Attribute) and e.func.attr in ("prepare", "start") and not e.args and not e.keywords:
                (prepare_nodes if e.func.attr == "prepare" else start_nodes).append(n)

    def members_at(nid: int) -> set:
        out = set()
        for d in rd.at(nid, var):
            info = rd.def_info(d, var)
            if info and isinstance(info[1], ast.AST):
                m = enum_member(info[1], state_enum)
                out.add(m or "?")
            else:
                out.add("<initial>")
        if not rd.at(nid, var):
            out.add("<initial>")
        return out

    # the awaits of the coroutines
    def await_nodes(call_nodes):
        out = []
        for cn in call_nodes:
            root = cfg.own_ast(cn)
            if any(isinstance(e, ast.Await) for e in iter_own(root)):
                out.append(cn)
            else:
                # coro = component.start(); ...; await coro
                tg = [t.id for t in cn.ast.targets if isinstance(t, ast.Name)] if isinstance(cn.ast, ast.Assign) else []
                for n in cfg.live_nodes():
                    r2 = cfg.own_ast(n)
                    if r2 is not None:
                        for e in iter_own(r2):
                            if isinstance(e, ast.Await) and isinstance(e.value, ast.Name) and e.value.id in tg and cn.id in rd.at(n.id, e.value.id):
                                out.append(n)
        return out

    pa, sa_ = await_nodes(prepare_nodes), await_nodes(start_nodes)
    if not pa or not sa_:
        rep.unrecognised("C14.R4", starter, starter.node, "cannot locate the awaits of prepare()/start() in the starter")
        return
    for n in pa:
        ms = members_at(n.id)
        rep.check("C14.R4", "starting" not in ms, starter, n.ast, f"while prepare() runs the component state is {sorted(ms)} (not 'starting'): no remap in prepare()", "the component is already in state 'starting' while prepare() runs: default names added in prepare() are remapped")
    for n in sa_:
        ms = members_at(n.id)
        rep.check("C14.R4", ms == {"starting"}, starter, n.ast, "while start() runs the component state is exactly 'starting'", f"while start() runs the component state may be {sorted(ms)}: default names added in start() are not (always) remapped")
    spawn = [n for n in cfg.live_nodes() if any(call_name(c) == "start_soon" for c, _ in a.node_calls(starter, cfg, n))]
    for n in spawn:
        ms = members_at(n.id)
        rep.check("C14.R4", "starting" not in ms, starter, n.ast, "while the children start the parent is not in state 'starting'", "the parent is in state 'starting' while its children start")
    ex = members_at(cfg.exit)
    rep.check("C14.R4", ex == {"started"}, starter, starter.node, "the starter leaves the component in state 'started'", f"after a successful start the component state may be {sorted(ex)} (the remap stays armed or the state is wrong)")


def alias_var_of(ctx, init: FuncInfo, rec_calls: list) -> str:
    """The loop variable holding a child's alias: the key of the loop around the recursive call."""
    from .tables import enclosing_loops

    for call, _ in rec_calls:
        loops = [l for l in enclosing_loops(init, call) if isinstance(l[2], ast.For)]
        if loops:
            tgt = loops[-1][1]
            if isinstance(tgt, ast.Tuple) and tgt.elts and isinstance(tgt.elts[0], ast.Name):
                return tgt.elts[0].id
    return "alias"


def _remap_value(ctx, an: Anchors, init: FuncInfo, rd: ReachingDefs, rec_calls: list) -> None:
    rep = ctx.rep
    a = ctx.a
    alias_v = alias_var_of(ctx, init, rec_calls)
    # which init parameter ends up as the default resource name of the component context?
    cc_init = an.ComponentContext.methods.get("__init__")
    ctor_calls = [(call, c) for call, c in a.func_calls(init) if c.kind == "class" and c.cls is an.ComponentContext]
    if not ctor_calls or cc_init is None:
        rep.unrecognised("C14.R4", init, init.node, "component context construction not found")
        return
    # parameter of ComponentContext.__init__ stored in the remap attribute
    remap_attr = None
    w = an.ComponentContext.methods.get("add_resource")
    spec = remap_spec(ctx, an, w) if w is not None else None
    if spec is not None and spec[3] is not None:
        remap_attr = self_attr(spec[3])
    src_param = None
    for n in walk_own(cc_init.node):
        if isinstance(n, ast.Assign) and any(self_attr(t) == remap_attr for t in n.targets) and isinstance(n.value, ast.Name):
            src_param = n.value.id
    if remap_attr is None or src_param is None:
        rep.unrecognised("C14.R4", cc_init, cc_init.node, "cannot trace the default resource name into the component context")
        return
    call, c = ctor_calls[0]
    ipos = [x for x in cc_init.params if x != "self"]
    arg = None
    for i, a_ in enumerate(call.args):
        if i < len(ipos) and ipos[i] == src_param:
            arg = a_
    for kw in call.keywords:
        if kw.arg == src_param:
            arg = kw.value
    if not (isinstance(arg, ast.Name) and arg.id in init.params):
        rep.unrecognised("C14.R4", init, call, "the default resource name handed to the component context is not an init parameter")
        return
    init_param = arg.id
    for rcall, _ in rec_calls:
        passed = _arg_for_param(init, rcall, init_param)
        if passed is None:
            rep.violate("C14.R4", init, rcall, "child components never receive an alias-derived default resource name")
            continue
        nid = rd.node_of(rcall)
        cl = rd.closure_at(nid, passed)
        good = bad = None
        for e in cl.exprs:
            for sub in ast.walk(e):
                if isinstance(sub, ast.Subscript) and isinstance(sub.value, ast.Call) and isinstance(sub.value.func, ast.Attribute):
                    m = sub.value.func.attr
                    args = sub.value.args
                    idx = sub.slice.value if isinstance(sub.slice, ast.Constant) else None
                    if m == "split" and args and is_const(args[0], "/"):
                        if len(args) == 2 and is_const(args[1], 1) and idx == 1:
                            good = sub
                        else:
                            bad = sub
                    elif m == "partition" and args and is_const(args[0], "/"):
                        if idx == 2:
                            good = sub
                        else:
                            bad = sub
                    elif m in ("rsplit", "rpartition"):
                        bad = sub
        if bad is not None:
            rep.violate("C14.R4", init, bad, f"default resource name is `{ast.unparse(bad)}`, not the alias suffix after the first '/'")
        elif good is not None:
            rep.hold("C14.R4", init, good, "default resource name is the alias suffix after the first '/'")
            rep.check("C14.R4", "default" in cl.consts, init, rcall, "an alias without '/' keeps the name 'default'", "an alias without '/' does not fall back to 'default'")
            # ... decided afresh for every child: no value survives from an earlier sibling
            if isinstance(passed, ast.Name):
                from .tables import enclosing_loops as _el14

                loops_ = [l_ for l_ in _el14(init, rcall) if isinstance(l_[2], (ast.For, ast.While))]
                if loops_:
                    lp_ = loops_[-1][2]
                    inside = {id(x) for b in lp_.body for x in ast.walk(b)}
                    cfg14 = a.cfg(init)
                    stale = []
                    for d_ in rd.at(nid, passed.id):
                        dn = cfg14.nodes[d_] if isinstance(d_, int) and d_ < len(cfg14.nodes) else None
                        if dn is not None and isinstance(dn.ast, ast.AST) and dn.kind == "stmt" and id(dn.ast) not in inside:
                            stale.append(dn)
                    rep.check("C14.R4", not stale, init, stale[0].ast if stale else rcall, "the child's default resource name is (re)computed in every iteration of the child loop", f"`{passed.id}` can reach the child with a value from outside the iteration (`{ast.unparse(stale[0].ast)[:60] if stale else ''}`): after a `kind/name` sibling every later plain-alias sibling inherits that sibling's name instead of 'default'")
            rep.check("C14.R4", alias_v in cl.names or any(alias_v in names_in(e) for e in cl.exprs), init, good, "the suffix is taken from the alias", "the suffix is not taken from the alias")
        elif not (alias_v in cl.names or any(alias_v in names_in(e) for e in cl.exprs)):
            rep.violate("C14.R4", init, rcall, f"the default resource name passed to the child (`{ast.unparse(passed)}`) does not depend on the alias at all: an alias `kind/name` no longer makes `name` the child's default resource name")
        else:
            rep.unrecognised("C14.R4", init, rcall, "cannot recognise how the child's default resource name is derived from the alias")


def _arg_for_param(callee: FuncInfo, call: ast.Call, param: str):
    pos = [x.arg for x in callee.node.args.posonlyargs + callee.node.args.args]
    for i, a_ in enumerate(call.args):
        if i < len(pos) and pos[i] == param:
            return a_
    for kw in call.keywords:
        if kw.arg == param:
            return kw.value
    return None


def _type_resolution(ctx, an: Anchors, init: FuncInfo, rd: ReachingDefs, cfg_param: str) -> None:
    rep = ctx.rep
    a = ctx.a
    alias_v = alias_var_of(ctx, init, [(c, cal) for c, cal in a.func_calls(init) if cal.kind == "func" and cal.func is init])
    cfg = a.cfg(init)
    # child type defaults to the alias
    sd = [n for n in walk_own(init.node) if isinstance(n, ast.Call) and call_name(n) == "setdefault" and n.args and is_const(n.args[0], "type")]
    ok = any(len(n.args) == 2 and isinstance(n.args[1], ast.Name) and n.args[1].id == alias_v for n in sd)
    if not sd:
        # if "type" not in child_config: child_config["type"] = alias
        for n in walk_own(init.node):
            if isinstance(n, ast.If) and isinstance(n.test, ast.Compare) and is_const(n.test.left, "type") and isinstance(n.test.ops[0], ast.NotIn):
                ok = any(isinstance(b, ast.Assign) and isinstance(b.value, ast.Name) and b.value.id == alias_v for b in n.body)
    rep.check("C14.R5", ok, init, sd[0] if sd else init.node, "a child's type defaults to its alias", "a child's type does not default to its alias")
    # kind/name: cut at the first '/'
    cut = None
    for n in walk_own(init.node):
        if isinstance(n, ast.Assign) and isinstance(n.value, ast.Subscript) and isinstance(n.value.value, ast.Call) and isinstance(n.value.value.func, ast.Attribute):
            call = n.value.value
            if call.func.attr in ("split", "partition") and call.args and is_const(call.args[0], "/") and any(isinstance(t, ast.Subscript) and is_const(t.slice, "type") for t in n.targets):
                cut = n
    if cut is None:
        rep.violate("C14.R5", init, init.node, "a `kind/name` type is never reduced to `kind`")
    else:
        idx = cut.value.slice.value if isinstance(cut.value.slice, ast.Constant) else None
        rep.check("C14.R5", idx == 0, init, cut, "a string type containing '/' is cut at the first '/'", f"the type is taken from part [{idx}] of the split")
        guard = [t for t in cfg.live_nodes() if t.kind == "test" and "isinstance" in ast.unparse(t.ast) and "'/'" in ast.unparse(t.ast)]
        rep.check("C14.R5", bool(guard), init, cut, "the cut applies only to string types containing '/'", "the '/' cut is not guarded by a string test (a class type would crash)")
    # resolver: three-way branch
    pc = ctx.p.classes.get("PluginContainer")
    resolve = pc.methods.get("resolve") if pc else None
    if resolve is None:
        rep.unrecognised("C14.R5", init, init.node, "PluginContainer.resolve not found")
        return
    rcfg = a.cfg(resolve)
    obj = resolve.params[1]
    tests = [t for t in rcfg.live_nodes() if t.kind == "test"]
    t_notstr = [t for t in tests if "isinstance" in ast.unparse(t.ast) and "str" in ast.unparse(t.ast)]
    t_colon = [t for t in tests if isinstance(t.ast, ast.Compare) and is_const(t.ast.left, ":") and isinstance(t.ast.ops[0], ast.In)]
    if not t_notstr or not t_colon:
        rep.violate("C14.R5", resolve, resolve.node, "resolver does not distinguish class / module:attr reference / entry point name")
        return
    neg = isinstance(t_notstr[0].ast, ast.UnaryOp)
    side = [d for d, lab in t_notstr[0].succ if lab == ("t" if neg else "f")]
    first = rcfg.nodes[side[0]] if side else None
    rep.check("C14.R5", first is not None and isinstance(first.ast, ast.Return) and isinstance(first.ast.value, ast.Name) and first.ast.value.id == obj, resolve, t_notstr[0].ast, "a non-string type is returned as is", "a non-string type is not returned unchanged")
    side = [d for d, lab in t_colon[0].succ if lab == "t"]
    first = rcfg.nodes[side[0]] if side else None
    is_ref = first is not None and isinstance(first.ast, ast.Return) and isinstance(first.ast.value, ast.Call) and call_name(first.ast.value) == "resolve_reference" and ast.unparse(first.ast.value.args[0]) == obj
    rep.check("C14.R5", is_ref, resolve, t_colon[0].ast, "a string with ':' is resolved as a module:attr reference", "a module:attr reference is not passed to resolve_reference")
    rep.check("C14.R5", rcfg.dominates(t_notstr[0].id, t_colon[0].id), resolve, t_colon[0].ast, "the string test precedes the ':' test", "':' is tested on non-strings")
    ep = [n for n in walk_own(resolve.node) if isinstance(n, ast.Call) and call_name(n) == "load"]
    lookup = [n for n in walk_own(resolve.node) if isinstance(n, ast.Raise) and n.exc is not None and "LookupError" in ast.unparse(exc_expr(n))]
    rep.check("C14.R5", bool(ep) and bool(lookup), resolve, resolve.node, "other strings are loaded from the entry point table (LookupError when absent)", "entry point names are not loaded / missing names are not reported")
    # the resolved class must be a Component subclass, checked before construction
    ctor = None
    for n in cfg.live_nodes():
        for call, c in a.node_calls(init, cfg, n):
            if isinstance(call.func, ast.Name) and any(k.arg is None for k in call.keywords) and c.kind in ("local", "param", "unknown", "global"):
                ctor = (n, call)
    checks = [t for t in cfg.live_nodes() if t.kind == "test" and "issubclass" in ast.unparse(t.ast)]
    if ctor is None:
        rep.unrecognised("C14.R5", init, init.node, "component constructor call `cls(**config)` not found")
    else:
        rep.check("C14.R5", bool(checks) and cfg.dominates(checks[0].id, ctor[0].id), init, ctor[1], "the resolved type is checked to be a Component subclass before it is instantiated", "the resolved type is instantiated without the Component subclass check")
        if checks:
            def permits_false(expr, value: bool) -> bool:
                """Can the issubclass(...) test be False when `expr` evaluates to `value`?"""
                if isinstance(expr, ast.UnaryOp) and isinstance(expr.op, ast.Not):
                    return permits_false(expr.operand, not value)
                if isinstance(expr, ast.BoolOp):
                    # and / or alike: the whole has this value only through its operands having it
                    # (for `and`=False and `or`=True at least one operand; otherwise all of them)
                    return any(permits_false(v, value) for v in expr.values)
                if isinstance(expr, ast.Call) and call_name(expr) == "issubclass":
                    return value is False
                return False

            def _mentions(e) -> bool:
                return any(isinstance(x, ast.Call) and call_name(x) == "issubclass" for x in ast.walk(e))

            bad_labs = [lab for lab in ("t", "f") if permits_false(checks[0].ast, lab == "t")]
            side = [d for d, lab in checks[0].succ if lab in bad_labs]
            region = cfg.reach(side, avoid=[checks[0].id], edge_ok=lambda s_, d_, lab: lab not in ("e", "h")) if side else set()
            rraises = [cfg.nodes[i_] for i_ in sorted(region) if cfg.nodes[i_].kind == "stmt" and isinstance(cfg.nodes[i_].ast, ast.Raise)]
            ok_te = bool(side) and len(bad_labs) == 1 and bool(rraises) and cfg.exit not in region and ctor[0].id not in region and all(r.ast.exc is not None and "TypeError" in ast.unparse(exc_expr(r.ast)) for r in rraises)
            rep.check("C14.R5", ok_te, init, checks[0].ast, "a non-Component type raises TypeError", "a non-Component type does not raise TypeError")
