"""Ownership analysis (DESIGN 2.5): Fresh / FreshShallow / Borrowed for container values.

Levels: 0 = Fresh (new container, owns every level)
        1 = FreshShallow (new top-level container whose elements alias the caller's data)
        2 = Borrowed (the caller's object)
        None = unknown origin (never reported: a violation needs a proven derivation
               from a borrowed input)

A mutation of a container whose level is 2 is a violation.  Calls to package functions are
analysed context-sensitively (callee body re-analysed with the argument levels, memoised).
"""
from __future__ import annotations

import ast
from dataclasses import dataclass, field
from typing import Callable, Optional

from .cfg import CFG, Node, iter_own
from .effects import Analysis
from .loader import FuncInfo

FRESH, SHALLOW, BORROWED = 0, 1, 2
NAMES = {0: "Fresh", 1: "FreshShallow", 2: "Borrowed", None: "unknown"}

_COPY_FUNCS = {"dict", "list", "set", "tuple", "frozenset", "OrderedDict", "copy", "sorted", "reversed"}
_ELEM_METHODS = {"get", "pop", "setdefault", "popitem", "__getitem__"}
_VIEW_METHODS = {"items", "values", "keys"}


def join(a, b):
    if a is None:
        return b
    if b is None:
        return a
    return max(a, b)


def elem(level):
    if level is None:
        return None
    return FRESH if level == FRESH else BORROWED


@dataclass
class OwnViolation:
    func: FuncInfo
    node: ast.AST
    what: str
    chain: list = field(default_factory=list)

    @property
    def site(self) -> str:
        return self.func.loc(self.node)


@dataclass
class OwnResult:
    violations: list
    return_level: object
    mutation_sites: int = 0
    notes: list = field(default_factory=list)


class Ownership:
    def __init__(self, analysis: Analysis, attr_level: Callable | None = None):
        self.a = analysis
        self.attr_level = attr_level or (lambda func, expr: None)
        self._memo: dict = {}
        self._in_progress: set = set()
        self.calls_followed = 0

    # ------------------------------------------------------------------ expr levels
    def expr_level(self, func: FuncInfo, expr, st: dict):
        if expr is None:
            return None
        if isinstance(expr, ast.Constant):
            return FRESH
        if isinstance(expr, ast.Name):
            return st.get(expr.id)
        if isinstance(expr, (ast.Dict,)):
            lv = FRESH
            for k, v in zip(expr.keys, expr.values):
                vl = self.expr_level(func, v, st)
                if k is None:  # **spread: elements of v become our elements
                    if vl is not None and vl >= SHALLOW:
                        lv = SHALLOW
                else:
                    if vl is not None and vl >= SHALLOW:
                        lv = SHALLOW
            return lv
        if isinstance(expr, (ast.List, ast.Tuple, ast.Set)):
            lv = FRESH
            for v in expr.elts:
                if isinstance(v, ast.Starred):
                    v = v.value
                vl = self.expr_level(func, v, st)
                if vl is not None and vl >= SHALLOW:
                    lv = SHALLOW
            return lv
        if isinstance(expr, (ast.DictComp, ast.ListComp, ast.SetComp, ast.GeneratorExp)):
            lv = FRESH
            for g in expr.generators:
                il = self._iter_elem_level(func, g.iter, st)
                if il is not None and il >= SHALLOW:
                    lv = SHALLOW
            return lv
        if isinstance(expr, ast.IfExp):
            return join(self.expr_level(func, expr.body, st), self.expr_level(func, expr.orelse, st))
        if isinstance(expr, ast.BoolOp):
            lv = None
            for v in expr.values:
                lv = join(lv, self.expr_level(func, v, st))
            return lv
        if isinstance(expr, ast.NamedExpr):
            return self.expr_level(func, expr.value, st)
        if isinstance(expr, ast.Await):
            return self.expr_level(func, expr.value, st)
        if isinstance(expr, ast.Subscript):
            return elem(self.expr_level(func, expr.value, st))
        if isinstance(expr, ast.Attribute):
            al = self.attr_level(func, expr)
            if al is not None:
                return al
            return None
        if isinstance(expr, ast.Call):
            return self._call_level(func, expr, st)
        return None

    def _iter_elem_level(self, func, it, st):
        if isinstance(it, ast.Call) and isinstance(it.func, ast.Attribute) and it.func.attr in _VIEW_METHODS:
            return elem(self.expr_level(func, it.func.value, st))
        if isinstance(it, ast.Call) and isinstance(it.func, ast.Name) and it.func.id in ("enumerate", "list", "tuple", "sorted", "reversed", "iter") and it.args:
            return self._iter_elem_level(func, it.args[0], st)
        return elem(self.expr_level(func, it, st))

    def _call_level(self, func, call: ast.Call, st):
        f = call.func
        if isinstance(f, ast.Subscript):
            f = f.value
        if isinstance(f, ast.Attribute):
            if f.attr == "copy" and not call.args:
                base = self.expr_level(func, f.value, st)
                return None if base is None else (FRESH if base == FRESH else SHALLOW)
            if f.attr == "deepcopy":
                return FRESH
            if f.attr in _ELEM_METHODS:
                lv = elem(self.expr_level(func, f.value, st))
                if f.attr in ("get", "pop", "setdefault") and len(call.args) >= 2:
                    lv = join(lv, self.expr_level(func, call.args[1], st))
                return lv
            if f.attr in _VIEW_METHODS:
                return self.expr_level(func, f.value, st)
        if isinstance(f, ast.Name):
            if f.id == "deepcopy":
                return FRESH
            if f.id in _COPY_FUNCS:
                if not call.args and not call.keywords:
                    return FRESH
                lv = FRESH
                for a_ in list(call.args) + [k.value for k in call.keywords]:
                    al = self.expr_level(func, a_, st)
                    if al is None:
                        continue
                    if al >= SHALLOW:
                        lv = SHALLOW
                return lv
        c = self.a.callee(func, call)
        if c.kind == "func" and not c.func.is_lambda:
            levels = self._bind_args(c.func, call, func, st, skip_self=c.recv is not None or c.func.cls is not None)
            res = self.analyse(c.func, levels)
            return res.return_level
        if c.kind == "class":
            return FRESH if False else None
        return None

    def _bind_args(self, callee: FuncInfo, call: ast.Call, caller: FuncInfo, st: dict, skip_self: bool) -> dict:
        a = callee.node.args
        pos = [x.arg for x in a.posonlyargs + a.args]
        if skip_self and pos and pos[0] in ("self", "cls"):
            pos = pos[1:]
        levels: dict = {}
        for i, arg in enumerate(call.args):
            if isinstance(arg, ast.Starred):
                break
            if i < len(pos):
                levels[pos[i]] = self.expr_level(caller, arg, st)
        allnames = set(pos) | {x.arg for x in a.kwonlyargs}
        for kw in call.keywords:
            if kw.arg is not None and kw.arg in allnames:
                levels[kw.arg] = self.expr_level(caller, kw.value, st)
        return levels

    # ------------------------------------------------------------------ function analysis
    def analyse(self, func: FuncInfo, param_levels: dict) -> OwnResult:
        key = (id(func), tuple(sorted((k, v) for k, v in param_levels.items() if v is not None)))
        if key in self._memo:
            return self._memo[key]
        if key in self._in_progress:
            return OwnResult([], SHALLOW)  # recursion: optimistic, refined by the outer run
        self._in_progress.add(key)
        self.calls_followed += 1
        try:
            res = self._analyse(func, param_levels)
        finally:
            self._in_progress.discard(key)
        self._memo[key] = res
        return res

    def _analyse(self, func: FuncInfo, param_levels: dict) -> OwnResult:
        cfg = self.a.cfg(func)
        init = {k: v for k, v in param_levels.items() if v is not None}
        states: dict = {cfg.entry: dict(init)}
        work = [cfg.entry]
        iterations = 0
        while work and iterations < 5000:
            iterations += 1
            nid = work.pop()
            n = cfg.nodes[nid]
            st_in = states[nid]
            st_out = self._transfer(func, cfg, n, dict(st_in))
            for d, lab in n.succ:
                old = states.get(d)
                if old is None:
                    states[d] = dict(st_out)
                    work.append(d)
                else:
                    changed = False
                    for k, v in st_out.items():
                        nv = join(old.get(k), v)
                        if nv != old.get(k):
                            old[k] = nv
                            changed = True
                    if changed:
                        work.append(d)
        # second pass: collect violations with the fixpoint states
        violations: list = []
        ret_level = None
        has_return = False
        mutation_sites = 0
        notes: list = []
        seen_v: set = set()
        for n in cfg.live_nodes():
            st = states.get(n.id)
            if st is None:
                continue
            for m in self.a.node_mutations(func, cfg, n):
                if m.kind == "rebind":
                    continue
                cont = self._container_expr(m)
                if cont is None:
                    continue
                mutation_sites += 1
                lv = self.expr_level(func, cont, st)
                if lv == BORROWED:
                    k = (id(m.node),)
                    if k not in seen_v:
                        seen_v.add(k)
                        violations.append(
                            OwnViolation(func, m.node, f"{m.kind} mutates {ast.unparse(cont)} which is Borrowed (caller-owned)")
                        )
            # calls passing values to package functions
            for call, c in self.a.node_calls(func, cfg, n):
                if c.kind == "func" and not c.func.is_lambda and not c.func.is_async or (c.kind == "func" and c.func.is_async and not c.func.is_lambda):
                    levels = self._bind_args(c.func, call, func, st, skip_self=c.recv is not None or c.func.cls is not None)
                    if not any(v is not None and v >= SHALLOW for v in levels.values()):
                        continue
                    res = self.analyse(c.func, levels)
                    for v in res.violations:
                        k = (id(call), id(v.node))
                        if k in seen_v:
                            continue
                        seen_v.add(k)
                        violations.append(
                            OwnViolation(
                                v.func,
                                v.node,
                                v.what,
                                chain=[f"{func.loc(call)} {func.qualname} calls {c.func.qualname}({', '.join(f'{k}={NAMES[x]}' for k, x in levels.items())})"] + v.chain,
                            )
                        )
            if n.kind == "stmt" and isinstance(n.ast, ast.Return):
                has_return = True
                lv = self.expr_level(func, n.ast.value, st) if n.ast.value is not None else FRESH
                if lv is None:
                    notes.append(f"return at {func.loc(n.ast)} has unknown ownership")
                    ret_level = join(ret_level, None)
                else:
                    ret_level = join(ret_level, lv)
        # prefer the shortest call chain for each mutating statement
        violations.sort(key=lambda v: (len(v.chain), v.site))
        best: dict = {}
        for v in violations:
            best.setdefault(id(v.node), v)
        violations = list(best.values())
        return OwnResult(violations, ret_level, mutation_sites, notes)

    @staticmethod
    def _container_expr(m):
        node = m.node
        if isinstance(node, ast.Call):
            return node.func.value
        if isinstance(node, (ast.Assign, ast.AugAssign, ast.AnnAssign)):
            targets = node.targets if isinstance(node, ast.Assign) else [node.target]
            for t in Analysis._flatten_targets(targets):
                if isinstance(t, ast.Subscript):
                    return t.value
            return None
        if isinstance(node, ast.Delete):
            for t in node.targets:
                if isinstance(t, ast.Subscript):
                    return t.value
        return None

    def _transfer(self, func: FuncInfo, cfg: CFG, n: Node, st: dict) -> dict:
        if n.kind == "for_next":
            lv = self._iter_elem_level(func, n.ast.iter, st)
            for t in Analysis._flatten_targets([n.ast.target]):
                if isinstance(t, ast.Name):
                    st[t.id] = lv
            return st
        if n.kind == "with_enter":
            if isinstance(n.item.optional_vars, ast.Name):
                st[n.item.optional_vars.id] = None
            return st
        root = cfg.own_ast(n)
        if root is None or n.kind not in ("stmt", "test", "for_iter"):
            return st
        for e in iter_own(root):
            if isinstance(e, ast.NamedExpr) and isinstance(e.target, ast.Name):
                st[e.target.id] = self.expr_level(func, e.value, st)
        if n.kind != "stmt":
            return st
        s = n.ast
        if isinstance(s, ast.Assign):
            lv = self.expr_level(func, s.value, st)
            for t in s.targets:
                self._assign(func, t, s.value, lv, st)
        elif isinstance(s, ast.AnnAssign) and s.value is not None:
            self._assign(func, s.target, s.value, self.expr_level(func, s.value, st), st)
        elif isinstance(s, ast.AugAssign) and isinstance(s.target, ast.Name):
            st[s.target.id] = join(st.get(s.target.id), self.expr_level(func, s.value, st))
        elif isinstance(s, ast.Expr) and isinstance(s.value, ast.Call) and isinstance(s.value.func, ast.Attribute):
            c = s.value
            if c.func.attr in ("append", "add", "update", "extend", "setdefault", "insert") and isinstance(c.func.value, ast.Name):
                name = c.func.value.id
                if st.get(name) == FRESH:
                    for a_ in c.args:
                        al = self.expr_level(func, a_, st)
                        if al is not None and al >= SHALLOW:
                            st[name] = SHALLOW
        return st

    def _assign(self, func, target, value, lv, st: dict) -> None:
        if isinstance(target, ast.Name):
            st[target.id] = lv
        elif isinstance(target, (ast.Tuple, ast.List)):
            if isinstance(value, (ast.Tuple, ast.List)) and len(value.elts) == len(target.elts):
                for t, v in zip(target.elts, value.elts):
                    self._assign(func, t, v, self.expr_level(func, v, st), st)
            else:
                for t in target.elts:
                    self._assign(func, t, None, elem(lv), st)
        elif isinstance(target, ast.Subscript) and isinstance(target.value, ast.Name):
            name = target.value.id
            if st.get(name) == FRESH and lv is not None and lv >= SHALLOW:
                st[name] = SHALLOW
