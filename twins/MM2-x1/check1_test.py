"""
Behaviour checks for refactoring 1 (resource lookup: ``Context.get_resource``,
``Context.get_resource_nowait`` and the module level shortcuts).

Must pass both on the unchanged source and with refactor1.diff applied.
"""

from __future__ import annotations

import gc
import warnings
from collections.abc import AsyncGenerator, Generator
from contextlib import asynccontextmanager
from typing import Any, Union

import anyio
import pytest
from anyio import create_task_group, wait_all_tasks_blocked

from asphalt.core import (
    AsyncResourceError,
    Context,
    NoCurrentContext,
    ResourceEvent,
    ResourceNotFound,
    get_resource,
    get_resource_nowait,
)

pytestmark = pytest.mark.anyio


@pytest.fixture
def anyio_backend() -> str:
    return "asyncio"


@asynccontextmanager
async def record_events(ctx: Context) -> AsyncGenerator[list[ResourceEvent], None]:
    events: list[ResourceEvent] = []

    async def listener(*, task_status: Any) -> None:
        async with ctx.resource_added.stream_events() as stream:
            task_status.started()
            async for event in stream:
                events.append(event)

    async with create_task_group() as tg:
        await tg.start(listener)
        yield events
        await wait_all_tasks_blocked()
        tg.cancel_scope.cancel()


def summarize(events: list[ResourceEvent]) -> list[tuple[Any, ...]]:
    return [
        (e.resource_types, e.resource_name, e.resource_description, e.is_factory)
        for e in events
    ]


class Awaitable:
    """A non-coroutine awaitable."""

    def __init__(self, value: Any) -> None:
        self.value = value
        self.awaited = 0

    def __await__(self) -> Generator[Any, Any, Any]:
        self.awaited += 1
        yield from anyio.sleep(0).__await__()
        return self.value


@pytest.mark.parametrize("nowait", [True, False], ids=["nowait", "async"])
class TestBothLookups:
    async def lookup(
        self, ctx: Context, nowait: bool, *args: Any, **kwargs: Any
    ) -> Any:
        if nowait:
            return ctx.get_resource_nowait(*args, **kwargs)

        return await ctx.get_resource(*args, **kwargs)

    async def lookup_shortcut(self, nowait: bool, *args: Any, **kwargs: Any) -> Any:
        if nowait:
            return get_resource_nowait(*args, **kwargs)

        return await get_resource(*args, **kwargs)

    async def test_static_resource(self, nowait: bool) -> None:
        async with Context() as ctx:
            ctx.add_resource("foo")
            ctx.add_resource("bar", "other", types=[str, object])
            async with record_events(ctx) as events:
                assert await self.lookup(ctx, nowait, str) == "foo"
                assert await self.lookup(ctx, nowait, str, "default") == "foo"
                assert await self.lookup(ctx, nowait, str, "other") == "bar"
                assert await self.lookup(ctx, nowait, object, "other") == "bar"
                assert await self.lookup(ctx, nowait, str, optional=True) == "foo"
                assert await self.lookup_shortcut(nowait, str, "other") == "bar"

            assert events == []

    async def test_missing(self, nowait: bool) -> None:
        async with Context() as ctx:
            ctx.add_resource("foo")
            ctx.add_resource_factory(lambda: 5, "fact", types=[int])
            async with record_events(ctx) as events:
                assert await self.lookup(ctx, nowait, int, optional=True) is None
                assert await self.lookup(ctx, nowait, str, "x", optional=True) is None
                assert await self.lookup_shortcut(nowait, float, optional=True) is None
                # Truthy/falsy non-bool values for "optional"
                assert await self.lookup(ctx, nowait, int, optional=1) is None
                for kwargs in ({}, {"optional": False}, {"optional": 0}):
                    with pytest.raises(ResourceNotFound) as exc:
                        await self.lookup(ctx, nowait, int, "nope", **kwargs)

                    assert type(exc.value) is ResourceNotFound
                    assert exc.value.args == (int, "nope")
                    assert exc.value.type is int
                    assert exc.value.name == "nope"
                    assert str(exc.value) == (
                        "no matching resource was found for type=int name='nope'"
                    )

                with pytest.raises(ResourceNotFound) as exc:
                    await self.lookup_shortcut(nowait, str, "fact")

                assert exc.value.args == (str, "fact")

            assert events == []
            assert ctx.get_resources(int) == {}

    async def test_sync_factory(self, nowait: bool) -> None:
        calls: list[int] = []

        def factory() -> Union[int, float]:  # noqa: UP007
            calls.append(len(calls) + 1)
            return calls[-1] * 10

        async with Context() as ctx:
            ctx.add_resource_factory(factory, "gen", description="generated number")
            async with record_events(ctx) as events:
                assert await self.lookup(ctx, nowait, float, "gen") == 10
                assert await self.lookup(ctx, nowait, int, "gen") == 10
                assert await self.lookup(ctx, nowait, float, "gen", optional=True) == 10
                assert calls == [1]

            assert summarize(events) == [
                ((int, float), "gen", "generated number", False)
            ]
            assert events[0].source is ctx
            assert events[0].topic == "resource_added"
            assert ctx.get_resources(int) == {"gen": 10}
            assert ctx.get_resources(float) == {"gen": 10}

            # Generated resources are not inherited; the factory is called again
            async with Context() as child:
                assert child.get_resources(int) == {}
                async with record_events(child) as child_events:
                    assert await self.lookup_shortcut(nowait, int, "gen") == 20
                    assert await self.lookup(child, nowait, float, "gen") == 20

                assert summarize(child_events) == [
                    ((int, float), "gen", "generated number", False)
                ]
                assert child_events[0].source is child
                assert calls == [1, 2]

            assert ctx.get_resources(int) == {"gen": 10}

    async def test_factory_does_not_replace_existing(self, nowait: bool) -> None:
        calls: list[str] = []

        def factory() -> str:
            calls.append("called")
            return "generated"

        async with Context() as ctx:
            ctx.add_resource("static", "x", types=[str], description="the static one")
            ctx.add_resource_factory(factory, "x", types=[str, object, bytes])
            async with record_events(ctx) as events:
                # str/x is found directly, so the factory is not triggered
                assert await self.lookup(ctx, nowait, str, "x") == "static"
                assert calls == []
                # object/x triggers the factory, but str/x must stay as it was
                assert await self.lookup(ctx, nowait, object, "x") == "generated"
                assert await self.lookup(ctx, nowait, str, "x") == "static"
                assert await self.lookup(ctx, nowait, bytes, "x") == "generated"
                assert calls == ["called"]

            assert summarize(events) == [((str, object, bytes), "x", None, False)]
            assert ctx.get_resources(str) == {"x": "generated"}
            assert ctx.get_resources(object) == {"x": "generated"}

    async def test_factory_raises(self, nowait: bool) -> None:
        calls: list[int] = []

        def factory() -> int:
            calls.append(1)
            if len(calls) == 1:
                raise KeyError("boom")

            return 7

        async with Context() as ctx:
            ctx.add_resource_factory(factory)
            async with record_events(ctx) as events:
                with pytest.raises(KeyError, match="boom"):
                    await self.lookup(ctx, nowait, int, optional=True)

                assert ctx.get_resources(int) == {}
                assert summarize(events) == []
                assert await self.lookup(ctx, nowait, int) == 7
                assert await self.lookup(ctx, nowait, int) == 7

            assert calls == [1, 1]
            assert summarize(events) == [((int,), "default", None, False)]

    async def test_factory_returns_none(self, nowait: bool) -> None:
        calls: list[int] = []

        def factory() -> int:
            calls.append(1)
            return None  # type: ignore[return-value]

        async with Context() as ctx:
            ctx.add_resource_factory(factory)
            async with record_events(ctx) as events:
                assert await self.lookup(ctx, nowait, int) is None
                assert await self.lookup(ctx, nowait, int) is None

            assert calls == [1]
            assert summarize(events) == [((int,), "default", None, False)]
            assert ctx.get_resources(int) == {"default": None}

    async def test_wrong_state(self, nowait: bool) -> None:
        ctx = Context()
        with pytest.raises(RuntimeError, match="^this context has not been entered"):
            await self.lookup(ctx, nowait, int, optional=True)

        async with ctx:
            ctx.add_resource(1)

        with pytest.raises(RuntimeError, match="^this context has already been closed"):
            await self.lookup(ctx, nowait, int)

    async def test_lookup_during_teardown(self, nowait: bool) -> None:
        results: list[Any] = []

        async def teardown() -> None:
            results.append(await self.lookup(ctx, nowait, int))
            results.append(await self.lookup(ctx, nowait, str, "made"))
            results.append(await self.lookup(ctx, nowait, float, optional=True))
            with pytest.raises(ResourceNotFound):
                await self.lookup(ctx, nowait, float)

        async with Context() as ctx:
            ctx.add_resource(1)
            ctx.add_resource_factory(lambda: "made", "made", types=str)
            ctx.add_teardown_callback(teardown)

        assert results == [1, "made", None]

    async def test_no_current_context(self, nowait: bool) -> None:
        with pytest.raises(NoCurrentContext):
            await self.lookup_shortcut(nowait, int, optional=True)


async def test_async_factory_via_get_resource() -> None:
    calls: list[int] = []

    async def factory() -> int:
        calls.append(1)
        await anyio.sleep(0)
        return 42

    async with Context() as ctx:
        ctx.add_resource_factory(factory, types=[int, float])
        async with record_events(ctx) as events:
            assert await ctx.get_resource(float) == 42
            assert await get_resource(int) == 42
            assert ctx.get_resource_nowait(int) == 42

        assert calls == [1]
        assert summarize(events) == [((int, float), "default", None, False)]


async def test_async_factory_via_nowait() -> None:
    created: list[Any] = []

    async def factory() -> int:
        created.append("ran")
        return 42

    async with Context() as ctx:
        ctx.add_resource_factory(factory)
        async with record_events(ctx) as events:
            with warnings.catch_warnings():
                # A coroutine that was not closed would trigger a RuntimeWarning
                warnings.simplefilter("error")
                for lookup in (ctx.get_resource_nowait, get_resource_nowait):
                    with pytest.raises(AsyncResourceError) as exc:
                        lookup(int, optional=True)

                    assert type(exc.value) is AsyncResourceError
                    del exc
                    gc.collect()

            assert ctx.get_resources(int) == {}

        assert created == []
        assert summarize(events) == []
        # The async variant still works afterwards
        assert await ctx.get_resource(int) == 42
        assert created == ["ran"]
        assert ctx.get_resource_nowait(int) == 42


async def test_noncoroutine_awaitable_factory() -> None:
    awaitables: list[Awaitable] = []

    def factory() -> Awaitable:
        awaitables.append(Awaitable("final"))
        return awaitables[-1]

    async with Context() as ctx:
        ctx.add_resource_factory(factory, "a", types=[Awaitable])
        ctx.add_resource_factory(factory, "b", types=[Awaitable])
        async with record_events(ctx) as events:
            # The sync variant only special-cases coroutine objects
            assert ctx.get_resource_nowait(Awaitable, "a") is awaitables[0]
            assert awaitables[0].awaited == 0
            # The async variant awaits on any awaitable
            assert await ctx.get_resource(Awaitable, "b") == "final"
            assert awaitables[1].awaited == 1
            assert await ctx.get_resource(Awaitable, "a") is awaitables[0]
            assert awaitables[0].awaited == 0

        assert len(awaitables) == 2
        assert summarize(events) == [
            ((Awaitable,), "a", None, False),
            ((Awaitable,), "b", None, False),
        ]


async def test_async_factory_cancelled() -> None:
    started = anyio.Event()
    calls: list[int] = []

    async def factory() -> int:
        calls.append(1)
        if len(calls) == 1:
            started.set()
            await anyio.sleep_forever()

        return len(calls)

    async with Context() as ctx:
        ctx.add_resource_factory(factory)
        async with record_events(ctx) as events:
            async with create_task_group() as tg:
                tg.start_soon(ctx.get_resource, int)
                await started.wait()
                # Nothing is published while the factory is still running
                assert ctx.get_resources(int) == {}
                tg.cancel_scope.cancel()

            assert ctx.get_resources(int) == {}
            assert summarize(events) == []
            assert await ctx.get_resource(int) == 2

        assert summarize(events) == [((int,), "default", None, False)]


async def test_concurrent_async_lookups_first_one_wins() -> None:
    release = anyio.Event()
    calls: list[int] = []
    results: list[int] = []

    async def factory() -> int:
        calls.append(1)
        number = len(calls)
        await release.wait()
        return number

    async def fetch() -> None:
        results.append(await ctx.get_resource(int))

    async with Context() as ctx:
        ctx.add_resource_factory(factory)
        async with record_events(ctx) as events:
            async with create_task_group() as tg:
                tg.start_soon(fetch)
                tg.start_soon(fetch)
                await wait_all_tasks_blocked()
                release.set()

            # Both calls triggered the factory and returned what they generated, but
            # only the first one to finish was stored in the context
            assert sorted(results) == [1, 2]
            assert ctx.get_resource_nowait(int) == results[0]

        assert summarize(events) == [((int,), "default", None, False)] * 2
