#!/usr/bin/env python3
"""For each kept seeded change given on the command line (ids; default: all whose meta has no
`static_checks_fired`): `git -C /repo apply` the patch, run every MANIFEST quick command,
`git -C /repo checkout -- .`, and record which checks fired in the seed's meta.json.
Strictly sequential - /repo is shared."""
import glob, json, os, subprocess, sys
VERIF = os.path.dirname(os.path.dirname(os.path.abspath(__file__)))
REPO = "/repo"

def sh(cmd, cwd=None):
    r = subprocess.run(cmd, shell=True, cwd=cwd, capture_output=True, text=True)
    return r.returncode, r.stdout + r.stderr

def main():
    ids = [a for a in sys.argv[1:] if not a.startswith("--")]
    only_own = "--own-only" in sys.argv
    metas = sorted(glob.glob(os.path.join(VERIF, "seeded", "*", "meta.json")))
    manifest = json.load(open(os.path.join(VERIF, "MANIFEST.json")))
    for mp in metas:
        m = json.load(open(mp))
        if ids and m["id"] not in ids:
            continue
        if not ids and (m.get("own_check_on_repo_apply") or (m.get("static_checks_fired") and "change_number" not in m)):
            continue
        rc, out = sh(f"git -C {REPO} status --porcelain")
        assert not out.strip(), "/repo is dirty"
        diff = os.path.join(os.path.dirname(mp), "patch.diff")
        fired = {}
        try:
            rc, out = sh(f"git -C {REPO} apply {diff}")
            assert rc == 0, out
            for chk in manifest["checks"]:
                pid = chk["property_id"]
                if only_own and pid != m["breaks_property"]:
                    continue
                rc, out = sh(chk["quick_cmd"], cwd=VERIF)
                lines = [l.strip() for l in out.splitlines() if l.startswith("VIOLATION") or l.startswith("  C") or l.startswith("ANALYSIS-ERROR")]
                if rc != 0:
                    fired[pid] = {"exit": rc, "lines": lines[:8]}
        finally:
            sh(f"git -C {REPO} checkout -- .")
            for pid in fired:
                sh(f"./check {pid}", cwd=VERIF)
        if only_own:
            # keep the in-memory verdicts of all 19 checks (tools/refresh_seeds.py); record what
            # the registered command of the seed's own property printed on /repo + patch
            m["own_check_on_repo_apply"] = fired.get(m["breaks_property"], {"exit": 0, "lines": []})
            m["detected_by_own_property_check"] = m["own_check_on_repo_apply"].get("exit") == 1
        else:
            m["static_checks_fired"] = fired
            m["detected_by_own_property_check"] = fired.get(m["breaks_property"], {}).get("exit") == 1
        json.dump(m, open(mp, "w"), indent=1)
        print(m["id"], "own:", m["detected_by_own_property_check"], "fired:", {k: v["exit"] for k, v in fired.items()})

if __name__ == "__main__":
    main()
