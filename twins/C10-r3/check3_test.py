"""
Behaviour check for refactoring 3 (``Signal._subscribe`` context manager replaced by a
``_subscribe()`` / ``_unsubscribe()`` pair registered as an exit stack callback).

Focus: the subscription life cycle - subscribing, unsubscribing (normally, through
exceptions and through cancellation), in arbitrary interleavings with dispatches.
"""

from __future__ import annotations

import gc
import warnings
from contextlib import AsyncExitStack
from typing import Any

import pytest
from anyio import (
    CancelScope,
    create_task_group,
    fail_after,
    get_cancelled_exc_class,
    wait_all_tasks_blocked,
)

from asphalt.core import Event, Signal, SignalQueueFull, stream_events
from asphalt.core._exceptions import UnboundSignal

pytestmark = pytest.mark.anyio()


class NumEvent(Event):
    def __init__(self, n: int) -> None:
        self.n = n


class Source:
    sig_a = Signal(NumEvent)
    sig_b = Signal(NumEvent)


async def drain(stream: Any, count: int) -> list[int]:
    out = []
    with fail_after(3):
        for _ in range(count):
            out.append((await stream.__anext__()).n)
    return out


def assert_no_subscribers(signal: Signal[NumEvent], queue_size: int) -> None:
    """
    Dispatch more events than fit in the queue: any stale subscription would overflow.
    """
    with warnings.catch_warnings():
        warnings.simplefilter("error")
        for i in range(queue_size + 2):
            signal.dispatch(NumEvent(-1 - i))


async def test_interleaved_subscribe_dispatch_unsubscribe_non_lifo() -> None:
    src = Source()
    stack1, stack2, stack3 = AsyncExitStack(), AsyncExitStack(), AsyncExitStack()
    src.sig_a.dispatch(NumEvent(0))
    s1 = await stack1.enter_async_context(src.sig_a.stream_events(max_queue_size=5))
    src.sig_a.dispatch(NumEvent(1))
    s2 = await stack2.enter_async_context(
        stream_events([src.sig_a, src.sig_b], max_queue_size=5)
    )
    src.sig_a.dispatch(NumEvent(2))
    src.sig_b.dispatch(NumEvent(3))
    s3 = await stack3.enter_async_context(src.sig_b.stream_events(max_queue_size=5))
    src.sig_b.dispatch(NumEvent(4))

    # the first subscriber leaves first (not LIFO)
    assert await drain(s1, 2) == [1, 2]
    await stack1.aclose()
    src.sig_a.dispatch(NumEvent(5))
    src.sig_b.dispatch(NumEvent(6))
    assert await drain(s2, 5) == [2, 3, 4, 5, 6]
    assert await drain(s3, 2) == [4, 6]

    await stack3.aclose()
    src.sig_b.dispatch(NumEvent(7))
    src.sig_a.dispatch(NumEvent(8))
    assert await drain(s2, 2) == [7, 8]
    await stack2.aclose()

    for stream in (s1, s2, s3):
        with pytest.raises(StopAsyncIteration):
            await stream.__anext__()

    assert_no_subscribers(src.sig_a, 5)
    assert_no_subscribers(src.sig_b, 5)


async def test_same_signal_listed_twice_is_subscribed_and_unsubscribed_twice() -> None:
    src = Source()
    async with stream_events([src.sig_a, src.sig_a], max_queue_size=4) as stream:
        src.sig_a.dispatch(NumEvent(1))
        src.sig_a.dispatch(NumEvent(2))
        # existing behaviour: one delivery per listed subscription
        assert await drain(stream, 4) == [1, 1, 2, 2]

    assert_no_subscribers(src.sig_a, 4)


async def test_unsubscribed_when_block_raises() -> None:
    src = Source()
    with pytest.raises(KeyError):
        async with stream_events([src.sig_a, src.sig_b], max_queue_size=2):
            src.sig_a.dispatch(NumEvent(1))
            raise KeyError("x")

    assert_no_subscribers(src.sig_a, 2)
    assert_no_subscribers(src.sig_b, 2)


async def test_unbound_signal_in_the_middle_rolls_back_earlier_subscriptions() -> None:
    src = Source()
    with pytest.raises(UnboundSignal):
        async with stream_events(
            [src.sig_a, src.sig_b, Source.sig_a, src.sig_a], max_queue_size=2
        ):
            pytest.fail("should not get here")

    assert_no_subscribers(src.sig_a, 2)
    assert_no_subscribers(src.sig_b, 2)
    with pytest.raises(UnboundSignal):
        Source.sig_a.dispatch(NumEvent(1))


async def test_unsubscribed_when_consumer_task_is_cancelled() -> None:
    src = Source()
    received: list[int] = []
    outcome: list[str] = []
    scope = CancelScope()

    async def consumer(*, task_status: Any) -> None:
        with scope:
            try:
                async with stream_events(
                    [src.sig_a, src.sig_b], max_queue_size=3
                ) as stream:
                    task_status.started()
                    async for event in stream:
                        received.append(event.n)
            except get_cancelled_exc_class():
                outcome.append("cancelled")
                raise

        outcome.append("done")

    with fail_after(5):
        async with create_task_group() as tg:
            await tg.start(consumer)
            src.sig_a.dispatch(NumEvent(1))
            src.sig_b.dispatch(NumEvent(2))
            await wait_all_tasks_blocked()
            assert received == [1, 2]
            src.sig_a.dispatch(NumEvent(3))
            scope.cancel()  # event 3 is handed over or not; the subscription must go
            await wait_all_tasks_blocked()

    assert outcome == ["cancelled", "done"]
    assert received[:2] == [1, 2]
    assert_no_subscribers(src.sig_a, 3)
    assert_no_subscribers(src.sig_b, 3)


async def test_resubscribing_gets_a_fresh_queue_and_other_subscribers_keep_theirs() -> (
    None
):
    src = Source()
    async with src.sig_a.stream_events(max_queue_size=2) as keeper:
        for round_no in range(3):
            async with src.sig_a.stream_events(max_queue_size=1) as temp:
                with warnings.catch_warnings(record=True) as caught:
                    warnings.simplefilter("always")
                    src.sig_a.dispatch(NumEvent(round_no * 10))
                    src.sig_a.dispatch(NumEvent(round_no * 10 + 1))

                # temp (size 1) overflowed once per round; keeper (size 2) never
                assert [w.category for w in caught] == [SignalQueueFull]
                assert "Queue full (1)" in str(caught[0].message)
                assert await drain(temp, 1) == [round_no * 10]

            assert await drain(keeper, 2) == [round_no * 10, round_no * 10 + 1]

    assert_no_subscribers(src.sig_a, 2)


async def test_subscriptions_are_per_instance_and_survive_unrelated_gc() -> None:
    src1, src2 = Source(), Source()
    async with src1.sig_a.stream_events() as stream1:
        async with src2.sig_a.stream_events() as stream2:
            del stream2
            gc.collect()
            src2.sig_a.dispatch(NumEvent(1))
            src1.sig_a.dispatch(NumEvent(2))
            # a bound signal is created once per instance, and is distinct per instance
            assert src2.sig_a is src2.sig_a
            assert src2.sig_a is not src1.sig_a

        src1.sig_a.dispatch(NumEvent(4))
        assert await drain(stream1, 2) == [2, 4]
        assert src1.sig_a is src1.sig_a
