"""
Property C14 checks (layered deep merge of component configuration).

Focus of this file: the exact merge semantics (dict-into-dict merges, everything else
replaces, falsy layers, key order, no aliasing/mutation of either side), checked
against an independent reference merge on generated trees, through start_component().
"""

from __future__ import annotations

import random
import sys
from copy import deepcopy
from typing import Any
from unittest.mock import Mock

import pytest

from asphalt.core import (
    Component,
    Context,
    add_resource,
    get_resource_nowait,
    get_resources,
    merge_config,
    start_component,
)

from asphalt.core._component import component_types

if sys.version_info >= (3, 10):
    from importlib.metadata import EntryPoint
else:
    from importlib_metadata import EntryPoint

pytestmark = pytest.mark.anyio


@pytest.fixture
def anyio_backend() -> str:
    return "asyncio"


def reference_merge(original: Any, overrides: Any) -> dict[str, Any]:
    """Independent model of the documented merge: dicts merge, the rest replaces."""
    result = deepcopy(original) if original else {}
    for key, value in (overrides or {}).items():
        if isinstance(result.get(key), dict) and isinstance(value, dict):
            result[key] = reference_merge(result[key], value)
        else:
            result[key] = deepcopy(value)

    return result


class Recorder(Component):
    instances: list[Recorder] = []

    def __init__(self, **kwargs: Any) -> None:
        self.kwargs = kwargs
        Recorder.instances.append(self)

    async def prepare(self) -> None:
        if self.kwargs.get("in_prepare"):
            add_resource(self.kwargs["in_prepare"], types=[str])

    async def start(self) -> None:
        add_resource(self, types=[Recorder])
        if "named" in self.kwargs:
            add_resource(self, self.kwargs["named"], types=[Recorder])


@pytest.fixture(autouse=True)
def reset(monkeypatch: pytest.MonkeyPatch) -> None:
    Recorder.instances = []
    entrypoint = Mock(EntryPoint)
    entrypoint.load.configure_mock(return_value=Recorder)
    monkeypatch.setattr(component_types, "_entrypoints", {"rec": entrypoint})
    monkeypatch.setattr(component_types, "_resolved", {})


HARDCODED: dict[str, dict[str, Any]] = {
    "rec/a": {
        "scalar": 1,
        "mapping": {"k1": 1, "k2": {"deep": [1, 2], "deeper": {"x": None}}},
        "to_scalar": {"was": "dict"},
        "to_dict": "was scalar",
        "untouched": {"u": 1},
    },
    "rec/b": {"named": "bee", "mapping": {}},
}

EXTERNAL: dict[str, Any] = {
    "rec/a": {
        "scalar": None,
        "mapping": {"k2": {"deep": [3], "deeper": {"y": 0}}, "k3": {}},
        "to_scalar": 0,
        "to_dict": {"now": {"a": "dict"}},
        "new": {"n": {"m": 1}},
    },
    "rec/b": {},
    "rec/c": None,
    "rec/d": {"in_prepare": "from-d", "named": "dee"},
}


class Parent(Component):
    def __init__(self, **kwargs: Any) -> None:
        self.kwargs = kwargs
        for alias, options in HARDCODED.items():
            self.add_component(alias, Recorder, **options)


async def test_merge_semantics_through_component_tree() -> None:
    hardcoded_before = deepcopy(HARDCODED)
    config = {"components": EXTERNAL, "own": {"x": 1}}
    config_before = deepcopy(config)
    async with Context():
        parent = await start_component(Parent, config)
        assert parent.kwargs == {"own": {"x": 1}}  # type: ignore[attr-defined]
        recorders = get_resources(Recorder)
        # Hard-coded children first, config-only children after, each in order
        assert [r.kwargs for r in Recorder.instances] == [
            {
                "scalar": None,
                "mapping": {
                    "k1": 1,
                    "k2": {"deep": [3], "deeper": {"x": None, "y": 0}},
                    "k3": {},
                },
                "to_scalar": 0,
                "to_dict": {"now": {"a": "dict"}},
                "untouched": {"u": 1},
                "new": {"n": {"m": 1}},
            },
            {"named": "bee", "mapping": {}},
            {},
            {"in_prepare": "from-d", "named": "dee"},
        ]
        assert list(Recorder.instances[0].kwargs) == [
            "scalar",
            "mapping",
            "to_scalar",
            "to_dict",
            "untouched",
            "new",
        ]
        assert sorted(recorders) == ["a", "b", "bee", "c", "d", "dee"]
        assert recorders["b"] is recorders["bee"] is Recorder.instances[1]
        assert recorders["d"] is recorders["dee"] is Recorder.instances[3]
        # Resource added in prepare() under a kind/name alias stays "default"
        assert get_resource_nowait(str) == "from-d"
        assert get_resource_nowait(str, "d", optional=True) is None

    assert HARDCODED == hardcoded_before
    assert config == config_before


def random_tree(rng: random.Random, depth: int) -> dict[str, Any]:
    tree: dict[str, Any] = {}
    for key in rng.sample(["a", "b", "c", "d", "e"], rng.randint(0, 4)):
        kind = rng.random()
        if kind < 0.45 and depth > 0:
            tree[key] = random_tree(rng, depth - 1)
        elif kind < 0.6:
            tree[key] = None
        elif kind < 0.75:
            tree[key] = [rng.randint(0, 9)]
        else:
            tree[key] = rng.randint(0, 9)

    return tree


@pytest.mark.parametrize("seed", range(25))
async def test_generated_trees_match_reference(seed: int) -> None:
    rng = random.Random(seed)
    aliases = ["rec/one", "rec/two", "rec/three"]
    hardcoded = {alias: random_tree(rng, 3) for alias in aliases[: rng.randint(0, 3)]}
    external: dict[str, Any] = {}
    for alias in aliases + ["rec/extra"]:
        roll = rng.random()
        if roll < 0.55:
            external[alias] = random_tree(rng, 3)
        elif roll < 0.7 and alias not in hardcoded:
            external[alias] = None
        elif roll < 0.7:
            external[alias] = {}

    class GeneratedParent(Component):
        def __init__(self) -> None:
            for alias, options in hardcoded.items():
                self.add_component(alias, Recorder, **options)

    for options in external.values():
        if options is not None:
            options["type"] = Recorder

    hardcoded_before = deepcopy(hardcoded)
    config = {"components": external}
    config_before = deepcopy(config)
    expected = reference_merge(hardcoded, external)

    results = []
    for _ in range(2):
        Recorder.instances = []
        async with Context():
            await start_component(GeneratedParent, config)
            results.append([deepcopy(r.kwargs) for r in Recorder.instances])
            names = sorted(get_resources(Recorder))

        assert config == config_before
        assert hardcoded == hardcoded_before

    assert results[0] == results[1]
    assert len(results[0]) == len(expected)
    assert names == sorted(alias.split("/")[1] for alias in expected)
    for alias, kwargs in zip(expected, results[0]):
        want = dict(expected[alias] or {})
        want.pop("type", None)
        assert kwargs == want, alias


@pytest.mark.parametrize("seed", range(25))
def test_merge_config_two_layers_matches_reference(seed: int) -> None:
    rng = random.Random(1000 + seed)
    original = rng.choice([None, {}, random_tree(rng, 3), random_tree(rng, 3)])
    overrides = rng.choice([None, {}, random_tree(rng, 3), random_tree(rng, 3)])
    original_before, overrides_before = deepcopy(original), deepcopy(overrides)
    merged = merge_config(original, overrides)
    assert merged == reference_merge(original, overrides)
    assert merged is not original and merged is not overrides
    assert original == original_before
    assert overrides == overrides_before
    if original:
        assert list(merged)[: len(original)] == list(original)
