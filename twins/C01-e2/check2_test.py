"""
Property C01 checks, focused on the registration side (Context.add_teardown_callback,
the add_teardown_callback() shortcut, add_resource(teardown_callback=...) and
@context_teardown): whatever is registered, by whichever route and at whatever time,
runs exactly once, LIFO, serially, and the block's outcome is preserved.

Must pass on the unchanged source and with refactor2.diff applied.
"""

from __future__ import annotations

import sys
from functools import partial
from typing import Any

import anyio
import pytest
from anyio import CancelScope, get_cancelled_exc_class
from anyio.lowlevel import checkpoint

from asphalt.core import (
    Context,
    add_resource,
    add_teardown_callback,
    context_teardown,
)

if sys.version_info < (3, 11):
    from exceptiongroup import BaseExceptionGroup

pytestmark = pytest.mark.anyio


@pytest.fixture(params=["asyncio", "trio"])
def anyio_backend(request: pytest.FixtureRequest) -> str:
    return request.param


class Fatal(BaseException):
    pass


class Log:
    def __init__(self) -> None:
        self.events: list[str] = []
        self.passed: dict[str, BaseException | None] = {}
        self.active = 0

    def _start(self, key: str) -> None:
        self.active += 1
        assert self.active == 1, "two teardown callbacks are running at the same time"
        self.events.append(f"{key}>")

    def _end(self, key: str) -> None:
        self.events.append(f"<{key}")
        self.active -= 1

    def sync(self, key: str, raises: BaseException | None = None) -> Any:
        def callback() -> None:
            self._start(key)
            self._end(key)
            if raises:
                raise raises

        return callback

    def sync_exc(self, key: str, raises: BaseException | None = None) -> Any:
        def callback(exc: BaseException | None) -> None:
            self.passed[key] = exc
            self._start(key)
            self._end(key)
            if raises:
                raise raises

        return callback

    def coro(self, key: str, raises: BaseException | None = None) -> Any:
        async def callback() -> None:
            self._start(key)
            with CancelScope(shield=True):
                await checkpoint()
                await anyio.sleep(0.001)

            self._end(key)
            if raises:
                raise raises

        return callback

    def coro_exc(self, key: str, raises: BaseException | None = None) -> Any:
        async def callback(exc: BaseException | None) -> None:
            self.passed[key] = exc
            self._start(key)
            with CancelScope(shield=True):
                await checkpoint()

            self._end(key)
            if raises:
                raise raises

        return callback

    def expect(self, *keys: str) -> None:
        expected: list[str] = []
        for key in keys:
            expected += [f"{key}>", f"<{key}"]

        assert self.events == expected
        assert self.active == 0


class CallableInstance:
    """A callable without ``__name__``/``__qualname__``."""

    def __init__(self, log: Log, key: str) -> None:
        self.inner = log.sync(key)

    def __call__(self) -> None:
        self.inner()


def make_generator_route(log: Log) -> Any:
    @context_teardown
    async def start(key: str, raises: BaseException | None = None) -> Any:
        exc = yield
        log.passed[key] = exc
        log._start(key)
        with CancelScope(shield=True):
            await checkpoint()

        log._end(key)
        if raises:
            raise raises

    return start


async def register_everything(ctx: Context, log: Log) -> list[str]:
    """Register callbacks through all routes; return the expected teardown order."""
    start = make_generator_route(log)

    def registrar() -> None:
        log._start("registrar")
        # registered during the teardown itself, through three different routes
        ctx.add_teardown_callback(log.coro_exc("during1"), True)
        add_teardown_callback(log.sync("during2"))
        ctx.add_resource(
            object(), "late_resource", teardown_callback=log.coro("during3")
        )
        log._end("registrar")

    ctx.add_teardown_callback(log.sync("m_sync"))
    ctx.add_teardown_callback(log.sync_exc("m_sync_exc"), pass_exception=True)
    add_teardown_callback(log.coro("f_coro"))
    add_teardown_callback(log.coro_exc("f_coro_exc"), pass_exception=True)
    await start("gen1")
    ctx.add_resource(1, teardown_callback=log.sync("res_sync"))
    add_resource(2.5, "named", teardown_callback=log.coro("res_coro"))
    ctx.add_teardown_callback(registrar)
    ctx.add_teardown_callback(partial(log.sync_exc("partial"), None))
    ctx.add_teardown_callback(CallableInstance(log, "instance"))
    # truthy / falsy non-bool values for pass_exception
    ctx.add_teardown_callback(log.sync_exc("truthy"), 1)  # type: ignore[arg-type]
    ctx.add_teardown_callback(log.sync("falsy"), 0)  # type: ignore[arg-type]
    await start("gen2")
    return [
        "gen2",
        "falsy",
        "truthy",
        "instance",
        "partial",
        "registrar",
        "during3",
        "during2",
        "during1",
        "res_coro",
        "res_sync",
        "gen1",
        "f_coro_exc",
        "f_coro",
        "m_sync_exc",
        "m_sync",
    ]


PASSED_KEYS = {"gen2", "truthy", "partial", "during1", "gen1", "f_coro_exc", "m_sync_exc"}


async def test_all_routes_clean_exit() -> None:
    log = Log()
    async with Context() as ctx:
        order = await register_everything(ctx, log)
        assert not log.events

    assert ctx.closed
    log.expect(*order)
    assert set(log.passed) == PASSED_KEYS
    assert all(value is None for value in log.passed.values())


async def test_all_routes_block_raises() -> None:
    log = Log()
    error = LookupError("the block failed")
    ctx = Context()
    with pytest.raises(LookupError) as exc_info:
        async with ctx:
            order = await register_everything(ctx, log)
            raise error

    assert exc_info.value is error
    assert ctx.closed
    log.expect(*order)
    assert set(log.passed) == PASSED_KEYS
    # "partial" binds its own argument (None) and is registered without pass_exception
    assert all(
        value is error for key, value in log.passed.items() if key != "partial"
    )


async def test_all_routes_cancelled() -> None:
    log = Log()
    ctx = Context()
    with CancelScope() as scope:
        async with ctx:
            order = await register_everything(ctx, log)
            scope.cancel()
            await anyio.sleep_forever()

    assert scope.cancelled_caught
    assert ctx.closed
    log.expect(*order)
    for key, value in log.passed.items():
        if key != "partial":
            assert isinstance(value, get_cancelled_exc_class())


async def test_rejected_registrations_leave_no_trace() -> None:
    log = Log()
    ctx = Context()
    with pytest.raises(RuntimeError, match="not been entered"):
        ctx.add_teardown_callback(log.sync("too_early"))

    async with ctx:
        ctx.add_teardown_callback(log.sync("first"))
        for bad in (None, 42, "name", object()):
            with pytest.raises(TypeError, match="callback must be a callable"):
                ctx.add_teardown_callback(bad)  # type: ignore[arg-type]

            with pytest.raises(TypeError, match="callback must be a callable"):
                add_teardown_callback(bad, True)  # type: ignore[arg-type]

        with pytest.raises(TypeError, match="callback must be a callable"):
            ctx.add_resource("x", teardown_callback=7)  # type: ignore[arg-type]

        ctx.add_teardown_callback(log.sync("second"))

    with pytest.raises(RuntimeError, match="already been closed"):
        ctx.add_teardown_callback(log.sync("too_late"))

    assert ctx.closed
    log.expect("second", "first")


async def test_same_callback_registered_repeatedly() -> None:
    calls: list[BaseException | None | str] = []

    def callback(*args: BaseException | None) -> None:
        calls.append(args[0] if args else "noarg")

    error = KeyError("x")
    with pytest.raises(KeyError):
        async with Context() as ctx:
            ctx.add_teardown_callback(callback)
            ctx.add_teardown_callback(callback, True)
            ctx.add_teardown_callback(callback)
            raise error

    assert calls == ["noarg", error, "noarg"]


async def test_raising_callbacks_from_every_route() -> None:
    log = Log()
    errors = {
        "direct": ValueError("direct"),
        "gen": Fatal("gen"),
        "resource": OSError("resource"),
        "during": Fatal("during"),
    }
    start = make_generator_route(log)
    async with Context():
        ctx = Context()
        with pytest.raises(BaseExceptionGroup) as exc_info:
            async with ctx:

                def registrar() -> None:
                    log._start("registrar")
                    ctx.add_teardown_callback(log.coro("during", errors["during"]))
                    log._end("registrar")

                ctx.add_teardown_callback(log.sync("ok1"))
                ctx.add_teardown_callback(
                    log.sync_exc("direct", errors["direct"]), True
                )
                await start("gen", errors["gen"])
                ctx.add_teardown_callback(log.coro("ok2"))
                add_resource(
                    "res", teardown_callback=log.coro("resource", errors["resource"])
                )
                ctx.add_teardown_callback(registrar)

    assert ctx.closed
    log.expect("registrar", "during", "resource", "ok2", "gen", "direct", "ok1")
    assert list(exc_info.value.exceptions) == [
        errors["during"],
        errors["resource"],
        errors["gen"],
        errors["direct"],
    ]
    assert log.passed == {"gen": None, "direct": None}
