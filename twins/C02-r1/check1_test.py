"""
Behaviour check for refactoring 1 (Context.__init__ snapshot logic).

Exercises property C02 through the public API only: what a child context can see is
the parent's static resources and resource factories at the moment the child was
created, plus whatever was added to the child itself.
"""

from __future__ import annotations

from typing import Any

import pytest

from asphalt.core import (
    Component,
    Context,
    ResourceConflict,
    ResourceNotFound,
    current_context,
    get_resource_nowait,
    inject,
    resource,
    start_component,
)

pytestmark = pytest.mark.anyio()


def visible(ctx: Context, type_: type, names: list[str]) -> dict[str, Any]:
    """Return name -> value for every name resolvable by get_resource_nowait()."""
    found = {}
    for name in names:
        value = ctx.get_resource_nowait(type_, name, optional=True)
        if value is not None:
            found[name] = value

    return found


async def test_snapshot_down_nothing_up_or_sideways() -> None:
    names = ["a", "b", "c", "d", "e"]
    async with Context() as root:
        assert root.parent is None
        assert root.get_resources(str) == {}
        root.add_resource("A", "a")
        async with Context() as child1:
            assert child1.parent is root
            # added to the parent after child1 was created
            root.add_resource("B", "b")
            child1.add_resource("C", "c")

            # sibling created explicitly from root while child1 is current
            async with Context(root) as child2:
                assert child2.parent is root
                child2.add_resource("D", "d")
                async with Context() as grandchild:
                    assert grandchild.parent is child2
                    grandchild.add_resource("E", "e")

                    assert root.get_resources(str) == {"a": "A", "b": "B"}
                    assert child1.get_resources(str) == {"a": "A", "c": "C"}
                    assert child2.get_resources(str) == {"a": "A", "b": "B", "d": "D"}
                    assert grandchild.get_resources(str) == {
                        "a": "A",
                        "b": "B",
                        "d": "D",
                        "e": "E",
                    }
                    # insertion order is inherited first, own additions last
                    assert list(grandchild.get_resources(str)) == ["a", "b", "d", "e"]
                    assert list(child1.get_resources(str)) == ["a", "c"]

                    # all lookup paths agree
                    for ctx in (root, child1, child2, grandchild):
                        expected = ctx.get_resources(str)
                        assert visible(ctx, str, names) == expected
                        for name in names:
                            value = await ctx.get_resource(str, name, optional=True)
                            assert value == expected.get(name)
                            if name not in expected:
                                with pytest.raises(ResourceNotFound):
                                    ctx.get_resource_nowait(str, name)
                                with pytest.raises(ResourceNotFound):
                                    await ctx.get_resource(str, name)

                # after the grandchild has been left nothing has leaked upwards
                assert child2.get_resources(str) == {"a": "A", "b": "B", "d": "D"}

            assert child1.get_resources(str) == {"a": "A", "c": "C"}
            assert root.get_resources(str) == {"a": "A", "b": "B"}

        # a child created now sees both, but none of the children's resources
        async with Context() as child3:
            assert child3.get_resources(str) == {"a": "A", "b": "B"}


async def test_child_may_shadow_what_parent_adds_later_and_conflicts_are_local() -> None:
    async with Context() as root:
        root.add_resource(1, "x")
        async with Context() as child:
            # inherited entry conflicts in the child
            with pytest.raises(ResourceConflict):
                child.add_resource(2, "x")

            # not inherited -> free in the child, and later in the parent too
            child.add_resource(10, "y")
            root.add_resource(20, "y")
            assert child.get_resource_nowait(int, "y") == 10
            assert root.get_resource_nowait(int, "y") == 20
            assert child.get_resources(int) == {"x": 1, "y": 10}
            assert root.get_resources(int) == {"x": 1, "y": 20}


async def test_multi_type_resources_are_inherited_under_every_type() -> None:
    class Base:
        pass

    class Derived(Base):
        pass

    obj = Derived()
    async with Context() as root:
        root.add_resource(obj, "multi", types=[Base, Derived])
        async with Context() as child:
            assert child.get_resource_nowait(Base, "multi") is obj
            assert child.get_resource_nowait(Derived, "multi") is obj
            assert child.get_resources(Base) == {"multi": obj}
            assert child.get_resources(Derived) == {"multi": obj}
            assert child.get_resources(object) == {}
            with pytest.raises(ResourceConflict):
                child.add_resource(Derived(), "multi", types=[Derived])


async def test_factories_are_snapshotted_and_generated_resources_stay_local() -> None:
    calls: list[Context] = []

    def factory() -> float:
        calls.append(current_context())
        return float(len(calls))

    def late_factory() -> bytes:
        return b"late"

    async with Context() as root:
        root.add_resource_factory(factory, "gen")
        # generated in the root: must not be copied to children
        assert root.get_resource_nowait(float, "gen") == 1.0
        assert root.get_resources(float) == {"gen": 1.0}

        async with Context() as child1:
            assert child1.get_resources(float) == {}
            root.add_resource_factory(late_factory, "late")
            assert child1.get_resource_nowait(bytes, "late", optional=True) is None
            assert await child1.get_resource(bytes, "late", optional=True) is None

            # the inherited factory generates a fresh, child-local resource
            assert await child1.get_resource(float, "gen") == 2.0
            assert child1.get_resource_nowait(float, "gen") == 2.0
            assert root.get_resource_nowait(float, "gen") == 1.0

            async with Context() as grandchild:
                # child1's generated resource is not inherited either
                assert grandchild.get_resources(float) == {}
                assert grandchild.get_resource_nowait(float, "gen") == 3.0

            # a factory added to the child is invisible to parent and new siblings
            child1.add_resource_factory(lambda: 42, "own", types=[int])
            assert child1.get_resource_nowait(int, "own") == 42
            assert root.get_resource_nowait(int, "own", optional=True) is None
            async with Context(root) as sibling:
                assert sibling.get_resource_nowait(int, "own", optional=True) is None
                assert sibling.get_resource_nowait(bytes, "late") == b"late"
                # inherited factory can't be re-registered, new names can
                with pytest.raises(ResourceConflict):
                    sibling.add_resource_factory(factory, "gen")

        assert calls == [root, child1, grandchild]


async def test_injection_agrees_with_direct_lookups() -> None:
    @inject
    def sync_func(
        a: str = resource("a"), b: "str | None" = resource("b")
    ) -> tuple[str, "str | None"]:
        return a, b

    @inject
    async def async_func(
        a: str = resource("a"), b: "str | None" = resource("b")
    ) -> tuple[str, "str | None"]:
        return a, b

    async with Context() as root:
        root.add_resource("A", "a")
        async with Context():
            root.add_resource("B", "b")
            assert sync_func() == ("A", None)
            assert await async_func() == ("A", None)
            async with Context(root):
                assert sync_func() == ("A", "B")
                assert await async_func() == ("A", "B")

            assert sync_func() == ("A", None)

        assert sync_func() == ("A", "B")
        assert await async_func() == ("A", "B")


async def test_unrelated_roots_share_nothing() -> None:
    async with Context() as root1:
        root1.add_resource("one", "r")
        async with Context() as child:
            assert child.get_resource_nowait(str, "r") == "one"

    # no current context here, so this is a new root
    async with Context() as root2:
        assert root2.parent is None
        assert root2.get_resources(str) == {}
        assert root2.get_resource_nowait(str, "r", optional=True) is None


async def test_context_created_inside_component_inherits_from_real_context() -> None:
    seen: dict[str, Any] = {}

    class MyComponent(Component):
        async def start(self) -> None:
            # current_context() is a ComponentContext here; resources added through
            # it end up in the surrounding (real) context
            current_context().add_resource("from-component", "comp")
            inner = Context()
            seen["parent"] = inner.parent
            async with inner:
                seen["inner"] = dict(inner.get_resources(str))
                seen["nowait"] = get_resource_nowait(str, "outer")
                inner.add_resource("inner-only", "inner")

    async with Context() as root:
        root.add_resource("outer-value", "outer")
        await start_component(MyComponent)
        assert seen["parent"] is root
        assert seen["inner"] == {"outer": "outer-value", "comp": "from-component"}
        assert seen["nowait"] == "outer-value"
        assert root.get_resources(str) == {
            "outer": "outer-value",
            "comp": "from-component",
        }
