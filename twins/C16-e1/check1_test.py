"""
Property check C16 (focus: deterministic service selection), via the ``asphalt run``
command line interface.  Must pass both on the unchanged source and with change 1.
"""

from __future__ import annotations

import copy
import itertools
import re
from pathlib import Path
from typing import Any
from unittest.mock import patch

import pytest
import yaml
from click.testing import CliRunner

from asphalt.core import _cli

ERROR = object()


# --------------------------------------------------------------------------- model
def deep_merge(a: dict[str, Any], b: dict[str, Any]) -> dict[str, Any]:
    out = dict(a)
    for key, value in b.items():
        if isinstance(out.get(key), dict) and isinstance(value, dict):
            out[key] = deep_merge(out[key], value)
        else:
            out[key] = value
    return out


def expected_config(
    documents: list[dict[str, Any]],
    overrides: list[str],
    service: str | None,
    env_service: str | None,
) -> Any:
    config: dict[str, Any] = {}
    for doc in documents:
        config = deep_merge(config, copy.deepcopy(doc))

    for override in overrides:
        key, value = override.split("=", 1)
        parts = [p.replace("\\.", ".") for p in re.split(r"(?<!\\)\.", key)]
        section = config
        for part in parts[:-1]:
            section = section.setdefault(part, {})
            if not isinstance(section, dict):
                return ERROR  # cannot descend into a scalar: the command must fail

        section[parts[-1]] = yaml.safe_load(value)

    services = config.pop("services", {})
    if "component" in config:
        services.setdefault("default", {"component": config.pop("component")})

    name = service or env_service
    if not services:
        return ERROR
    if name:
        if name not in services:
            return ERROR
        selected = services[name]
    elif len(services) == 1:
        selected = next(iter(services.values()))
    elif "default" in services:
        selected = services["default"]
    else:
        return ERROR

    return deep_merge(config, selected)


# ------------------------------------------------------------------------- harness
def invoke(
    monkeypatch: pytest.MonkeyPatch,
    documents: list[dict[str, Any]],
    overrides: list[str] = [],
    service: str | None = None,
    env_service: str | None = None,
) -> Any:
    """Run ``asphalt run`` and return the config handed to run_application."""
    if env_service is None:
        monkeypatch.delenv("ASPHALT_SERVICE", raising=False)
    else:
        monkeypatch.setenv("ASPHALT_SERVICE", env_service)

    runner = CliRunner()
    with (
        runner.isolated_filesystem(),
        patch("asphalt.core._cli.run_application") as run_app,
    ):
        args = ["run"]
        if service is not None:
            args += ["--service", service]
        for i, doc in enumerate(documents):
            Path(f"conf{i}.yml").write_text(yaml.safe_dump(doc))
            args.append(f"conf{i}.yml")
        for override in overrides:
            args += ["--set", override]

        result = runner.invoke(_cli.main, args)

    if run_app.call_count == 0:
        assert result.exit_code != 0
        assert "Error" in result.output
        return ERROR

    assert result.exit_code == 0, result.output
    assert run_app.call_count == 1
    (component_type, component_config), kwargs = run_app.call_args
    config = dict(kwargs)
    config["component"] = {"type": component_type, **component_config}
    return config


def normalise(expected: Any) -> Any:
    """Add the defaults that the command supplies itself."""
    if expected is ERROR:
        return ERROR
    expected = dict(expected)
    expected.setdefault("backend", "asyncio")
    expected.setdefault("backend_options", {})
    return expected


def comp(name: str, **extra: Any) -> dict[str, Any]:
    return {"type": f"pkg.mod:{name}", **extra}


LAYOUTS: dict[str, dict[str, Any]] = {
    "none": {},
    "empty": {"services": {}},
    "one": {"services": {"web": {"component": comp("Web"), "max_threads": 3}}},
    "one_default": {"services": {"default": {"component": comp("Def")}}},
    "several": {
        "services": {
            "web": {"component": comp("Web", port=1)},
            "worker": {"component": comp("Worker"), "max_threads": 7},
        }
    },
    "several_default": {
        "services": {
            "web": {"component": comp("Web", port=1)},
            "default": {"component": comp("Def"), "logging": {"version": 1}},
            "worker": {"component": comp("Worker")},
        }
    },
}
TOP = {
    "max_threads": 11,
    "logging": {"version": 1, "loggers": {"a.b": {"level": "INFO"}}},
}


@pytest.mark.parametrize("layout", list(LAYOUTS))
@pytest.mark.parametrize(
    "service, env_service",
    list(itertools.product([None, "web", "default", "missing"], repeat=2)),
)
def test_service_selection(
    monkeypatch: pytest.MonkeyPatch,
    layout: str,
    service: str | None,
    env_service: str | None,
) -> None:
    documents = [TOP, LAYOUTS[layout]]
    actual = invoke(monkeypatch, documents, [], service, env_service)
    assert actual == normalise(expected_config(documents, [], service, env_service))


@pytest.mark.parametrize("service", [None, "web", "worker"])
def test_service_section_wins_over_top_level_and_overrides(
    monkeypatch: pytest.MonkeyPatch, service: str | None
) -> None:
    documents = [
        {
            "max_threads": 1,
            "logging": {"version": 1, "root": {"level": "INFO"}},
            "services": {
                "web": {
                    "component": comp("Web", components={"a": {"x": 1}}),
                    "logging": {"root": {"level": "DEBUG"}},
                },
                "worker": {"component": comp("Worker")},
            },
        },
        {"services": {"web": {"component": {"components": {"a": {"y": 2}}}}}},
    ]
    overrides = [
        "max_threads=5",
        "services.web.max_threads=9",
        "services.web.component.components.a.x=[1, 2]",
        r"logging.loggers.asphalt\.core.level=WARNING",
    ]
    actual = invoke(monkeypatch, documents, overrides, service, None)
    expected = normalise(expected_config(documents, overrides, service, None))
    assert actual == expected
    if service == "web":
        assert actual["max_threads"] == 9
        assert actual["logging"]["root"] == {"level": "DEBUG"}
        assert actual["logging"]["loggers"] == {"asphalt.core": {"level": "WARNING"}}
        assert actual["component"]["components"] == {"a": {"x": [1, 2], "y": 2}}
    elif service == "worker":
        assert actual["max_threads"] == 5
    else:
        assert actual is ERROR


def test_service_created_purely_by_overrides(monkeypatch: pytest.MonkeyPatch) -> None:
    documents = [{"max_threads": 2}]
    overrides = ["services.cli.component.type=pkg:Cli", "services.cli.component.n=3"]
    actual = invoke(monkeypatch, documents, overrides)
    assert actual == normalise(expected_config(documents, overrides, None, None))
    assert actual["component"] == {"type": "pkg:Cli", "n": 3}


def test_top_level_component_is_default_service(
    monkeypatch: pytest.MonkeyPatch,
) -> None:
    documents = [{"component": comp("Root", a=1), "max_threads": 4}]
    assert invoke(monkeypatch, documents) == normalise(
        expected_config(documents, [], None, None)
    )
    assert invoke(monkeypatch, documents, service="default")["component"] == comp(
        "Root", a=1
    )
    assert invoke(monkeypatch, documents, env_service="other") is ERROR
