"""Apply a unified diff (git diff output) to in-memory sources."""
from __future__ import annotations

import re


def apply_unified(sources: dict, difftext: str) -> dict | None:
    """sources: relpath -> text.  Returns {relpath: new text} for touched files, or None when a hunk does not apply."""
    out: dict = {}
    cur = None
    hunks: list = []
    files: list = []
    for line in difftext.splitlines():
        if line.startswith("+++ "):
            path = line[4:].strip()
            if path.startswith("b/"):
                path = path[2:]
            cur = path
            hunks = []
            files.append((cur, hunks))
        elif line.startswith("--- ") or line.startswith("diff ") or line.startswith("index ") or line.startswith("new file") or line.startswith("deleted file") or line.startswith("similarity") or line.startswith("rename"):
            continue
        elif line.startswith("@@"):
            hunks.append([])
        elif hunks and (line.startswith(" ") or line.startswith("+") or line.startswith("-") or line == ""):
            hunks[-1].append(line if line else " ")
        elif line.startswith("\\"):
            continue
    for path, hs in files:
        if path not in sources:
            return None
        lines = sources[path].split("\n")
        pos = 0
        for h in hs:
            old = [l[1:] for l in h if l[0] in " -"]
            new = [l[1:] for l in h if l[0] in " +"]
            # trailing blank context lines may have been stripped
            found = -1
            for i in range(pos, len(lines) - len(old) + 1):
                if lines[i : i + len(old)] == old:
                    found = i
                    break
            if found < 0:
                for i in range(0, len(lines) - len(old) + 1):
                    if lines[i : i + len(old)] == old:
                        found = i
                        break
            if found < 0:
                return None
            lines[found : found + len(old)] = new
            pos = found + len(new)
        out[path] = "\n".join(lines)
    return out
