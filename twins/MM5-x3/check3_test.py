"""
Behaviour checks for refactoring 3 (``start_component`` argument handling, the startup
watchdog and its timeout report).

Everything goes through the public API and must pass both on the unchanged source and
with refactor3.diff applied.
"""

from __future__ import annotations

import logging
import re
from collections import UserDict
from typing import Any

import anyio
import pytest
from pytest import LogCaptureFixture

from asphalt.core import (
    Component,
    ComponentStartError,
    Context,
    add_teardown_callback,
    start_component,
)

pytestmark = pytest.mark.anyio


@pytest.fixture(params=["asyncio", "trio"])
def anyio_backend(request: Any) -> str:
    return request.param


EVENTS: list[Any] = []


@pytest.fixture(autouse=True)
def reset_events() -> None:
    EVENTS.clear()


class Quick(Component):
    async def start(self) -> None:
        EVENTS.append("quick started")


class Inert(Component):
    pass


async def stall_helper() -> None:
    await anyio.sleep(30)  # marker: stall_helper


class StallsInStart(Component):
    async def start(self) -> None:
        try:
            await stall_helper()  # marker: StallsInStart.start
        finally:
            EVENTS.append("start cancelled")


class StallsInPrepare(Component):
    async def prepare(self) -> None:
        add_teardown_callback(lambda: EVENTS.append("teardown"))
        await anyio.sleep(30)  # marker: StallsInPrepare.prepare

    async def start(self) -> None:
        EVENTS.append("unreachable")


class Branch(Component):
    def __init__(self, children: dict[str, Any]) -> None:
        for alias, child_type in children.items():
            self.add_component(alias, child_type)

    async def start(self) -> None:
        EVENTS.append("branch start: unreachable")


class Root(Component):
    def __init__(self) -> None:
        self.add_component("quick", Quick)
        self.add_component("inert", Inert)
        self.add_component("stalled", StallsInStart)
        self.add_component(
            "branch", Branch, children={"deep": StallsInPrepare, "ok": Quick}
        )

    async def prepare(self) -> None:
        EVENTS.append("root prepared")


STATUS_TITLE = "Current status of the components still waiting to finish startup"
STACKS_TITLE = "Stack summaries of components still waiting to start"


async def test_timeout_report(caplog: LogCaptureFixture) -> None:
    caplog.set_level(logging.INFO, "asphalt.core")
    with anyio.fail_after(10):
        async with Context():
            with pytest.raises(TimeoutError) as exc:
                await start_component(Root, timeout=0.2)

            # a bare TimeoutError, not an exception group; the stalled components were
            # cancelled before start_component() returned
            assert type(exc.value) is TimeoutError
            assert exc.value.args == ("timeout starting component tree",)
            assert sorted(e for e in EVENTS if e != "quick started") == [
                "root prepared",
                "start cancelled",
            ]

    assert EVENTS[-1] == "teardown"
    assert EVENTS.count("quick started") == 2
    assert "unreachable" not in EVENTS

    records = [r for r in caplog.records if r.name == "asphalt.core"]
    assert len(records) == 1
    record = records[0]
    assert record.levelno == logging.ERROR
    assert record.msg == "%s"
    report = record.getMessage()
    sections = report.split("\n\n")
    assert sections[0] == "Timeout waiting for the component tree to start"
    assert sections[1] == f"{STATUS_TITLE}\n{'-' * len(STATUS_TITLE)}"
    assert sections[2] == "\n".join(
        [
            "(root): starting children",
            "  stalled: starting",
            "  branch: starting children",
            "    deep: preparing",
        ]
    )
    assert sections[3] == f"{STACKS_TITLE}\n{'-' * len(STACKS_TITLE)}"
    assert len(sections) == 6

    mod = __name__
    stalled, deep = sections[4], sections[5]
    stalled_lines = stalled.split("\n")
    assert stalled_lines[0] == f"stalled ({mod}.StallsInStart):"
    # outermost frame first: start() -> stall_helper() [-> anyio.sleep() internals]
    assert re.match(
        r'  File ".*check3_test\.py", line \d+, in start$', stalled_lines[1]
    )
    assert stalled_lines[2] == (
        "    await stall_helper()  # marker: StallsInStart.start"
    )
    assert re.match(
        r'  File ".*check3_test\.py", line \d+, in stall_helper$', stalled_lines[3]
    )
    assert stalled_lines[4] == "    await anyio.sleep(30)  # marker: stall_helper"
    assert not stalled.endswith("\n")

    deep_lines = deep.split("\n")
    assert deep_lines[0] == f"branch.deep ({mod}.StallsInPrepare):"
    assert re.match(r'  File ".*check3_test\.py", line \d+, in prepare$', deep_lines[1])
    assert deep_lines[2] == (
        "    await anyio.sleep(30)  # marker: StallsInPrepare.prepare"
    )
    assert not report.endswith("\n")


async def test_timeout_report_stalled_root_with_started_child(
    caplog: LogCaptureFixture,
) -> None:
    class StalledRoot(Component):
        def __init__(self) -> None:
            self.add_component("done", Quick)

        async def start(self) -> None:
            await anyio.sleep(30)

    caplog.set_level(logging.ERROR, "asphalt.core")
    with anyio.fail_after(10):
        async with Context():
            with pytest.raises(TimeoutError, match="^timeout starting component tree$"):
                await start_component(StalledRoot, timeout=0.1)

    report = caplog.records[-1].getMessage()
    sections = report.split("\n\n")
    # started children are not listed; the root's title has an empty path
    assert sections[2] == "(root): starting"
    assert sections[3].startswith(STACKS_TITLE + "\n" + "-" * len(STACKS_TITLE))
    assert sections[4].startswith(
        " (check3_test.test_timeout_report_stalled_root_with_started_child.<locals>.StalledRoot):\n"
        '  File "'
    )
    assert len(sections) == 5


async def test_report_with_async_generator_in_stack(caplog: LogCaptureFixture) -> None:
    async def agen() -> Any:
        await anyio.sleep(30)  # marker: inside agen
        yield 1

    class UsesAsyncGenerator(Component):
        async def start(self) -> None:
            async for _ in agen():  # marker: async for
                pass

    caplog.set_level(logging.ERROR, "asphalt.core")
    with anyio.fail_after(10):
        async with Context():
            with pytest.raises(TimeoutError):
                await start_component(UsesAsyncGenerator, timeout=0.1)

    report = caplog.records[-1].getMessage()
    stack = report.split("\n\n")[4]
    lines = stack.split("\n")
    assert lines[1].endswith(", in start")
    assert lines[2] == "    async for _ in agen():  # marker: async for"
    # The walk gets past the asend() object straight to what the generator awaits
    # on; the generator's own frame is not part of the summary
    assert lines[3].endswith(", in sleep")
    assert "marker: inside agen" not in stack
    assert all(line.startswith("  ") for line in lines[1:])


@pytest.mark.parametrize("timeout", [None, 0, 0.0, False])
async def test_no_watchdog_when_timeout_is_falsy(
    timeout: Any, caplog: LogCaptureFixture
) -> None:
    class Slowish(Component):
        async def start(self) -> None:
            await anyio.sleep(0.15)
            EVENTS.append("slowish started")

    caplog.set_level(logging.ERROR, "asphalt.core")
    async with Context():
        component = await start_component(Slowish, timeout=timeout)

    assert isinstance(component, Slowish)
    assert EVENTS == ["slowish started"]
    assert not caplog.records


async def test_startup_finishing_in_time_cancels_watchdog(
    caplog: LogCaptureFixture,
) -> None:
    caplog.set_level(logging.ERROR, "asphalt.core")
    with anyio.fail_after(10):
        async with Context():
            component = await start_component(
                Branch, {"children": {"q": Quick, "i": Inert}}, timeout=0.3
            )
            assert isinstance(component, Branch)
            # well past the timeout: the watchdog must be gone by now
            await anyio.sleep(0.5)

    assert not caplog.records
    assert EVENTS == ["quick started", "branch start: unreachable"]


async def test_error_with_watchdog_running_is_not_grouped() -> None:
    class Failing(Component):
        async def start(self) -> None:
            await anyio.sleep(0.05)
            raise ValueError("fail")

    with anyio.fail_after(10):
        async with Context():
            with pytest.raises(ComponentStartError) as exc:
                await start_component(Failing, timeout=5)

            assert type(exc.value.__cause__) is ValueError

            with pytest.raises(ComponentStartError) as exc:
                await start_component(
                    Branch, {"children": {"f": Failing, "s": StallsInStart}}, timeout=5
                )

            assert (exc.value.phase, exc.value.path) == ("starting", "f")


async def test_no_active_context() -> None:
    with pytest.raises(RuntimeError) as exc:
        await start_component(Quick)

    assert str(exc.value) == "start_component() requires an active Asphalt context"
    assert exc.value.__cause__ is None
    assert exc.value.__suppress_context__ is True

    # checked before the configuration is looked at
    with pytest.raises(RuntimeError, match="requires an active Asphalt context"):
        await start_component(Quick, "bad config")  # type: ignore[call-overload]

    assert EVENTS == []


@pytest.mark.parametrize("bad_config", ["foo", 5, (), [("a", 1)], frozenset()])
async def test_bad_root_config(bad_config: Any) -> None:
    async with Context():
        with pytest.raises(TypeError) as exc:
            await start_component(Quick, bad_config)

    assert str(exc.value) == (
        "config must be a dict (or any other mutable mapping) or None"
    )


async def test_root_config_variants() -> None:
    class Configurable(Component):
        def __init__(self, **kwargs: Any) -> None:
            self.kwargs = kwargs

    async with Context():
        # None and empty are equivalent
        assert (await start_component(Configurable, None)).kwargs == {}
        assert (await start_component(Configurable, {})).kwargs == {}

        # any mutable mapping is accepted and is not modified
        config = UserDict({"a": 1, "components": {"x": {"type": Quick}}})
        component = await start_component(Configurable, config)
        assert component.kwargs == {"a": 1}
        assert dict(config) == {"a": 1, "components": {"x": {"type": Quick}}}
        assert EVENTS == ["quick started"]

        # a "type" key in the configuration wins over the positional argument
        component = await start_component(Quick, {"type": Configurable, "b": 2})
        assert type(component) is Configurable
        assert component.kwargs == {"b": 2}
