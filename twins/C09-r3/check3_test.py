"""
Behaviour check for refactoring 3 (equivalent idioms in TaskFactory and in
Context.start_background_task_factory).

Focus: tearing down the owning context waits for (does not cancel) the running tasks,
whenever that happens; the tasks' contexts inherit from a snapshot of the factory's
context; all_task_handles() hands out independent copies; naming fallbacks; the
factory's host service task.
"""

from __future__ import annotations

import logging
import re
import sys
from typing import Any, NoReturn

import pytest
from anyio import (
    Event,
    create_task_group,
    fail_after,
    get_current_task,
    sleep,
)
from anyio.lowlevel import checkpoint
from pytest import LogCaptureFixture

from asphalt.core import (
    Context,
    TaskFactory,
    TaskHandle,
    add_resource,
    current_context,
    get_resource_nowait,
    start_background_task_factory,
)

if sys.version_info < (3, 11):
    from exceptiongroup import BaseExceptionGroup

pytestmark = pytest.mark.anyio()


def leaves(exc: BaseException) -> list[BaseException]:
    if isinstance(exc, BaseExceptionGroup):
        return [leaf for sub in exc.exceptions for leaf in leaves(sub)]

    return [exc]


@pytest.mark.parametrize("num_tasks", [0, 1, 5])
async def test_teardown_waits_and_does_not_cancel(num_tasks: int) -> None:
    outcomes: list[str] = []

    def make(index: int) -> Any:
        async def taskfunc() -> None:
            try:
                await sleep(0.05 * (index + 1))
            except BaseException:
                outcomes.append(f"cancelled-{index}")
                raise

            outcomes.append(f"finished-{index}")

        return taskfunc

    with fail_after(5):
        async with Context():
            factory = await start_background_task_factory()
            handles = [
                factory.start_task_soon(make(index))
                if index % 2
                else await factory.start_task(make(index))
                for index in range(num_tasks)
            ]
            assert factory.all_task_handles() == set(handles)
            assert outcomes == []

    assert outcomes == [f"finished-{index}" for index in range(num_tasks)]
    assert factory.all_task_handles() == set()


async def test_teardown_of_subcontext_waits_there() -> None:
    finished = False
    torn_down: list[str] = []

    async def taskfunc() -> None:
        nonlocal finished
        await sleep(0.1)
        # The factory's context is still intact while the task is running
        assert get_resource_nowait(str) == "sub-resource"
        assert torn_down == []
        finished = True

    with fail_after(5):
        async with Context():
            async with Context():
                add_resource(
                    "sub-resource",
                    teardown_callback=lambda: torn_down.append("resource"),
                )
                factory = await start_background_task_factory()
                handle = factory.start_task_soon(taskfunc)
                assert not finished

            # Leaving the factory's own context has waited for the task
            assert finished
            assert torn_down == ["resource"]
            assert factory.all_task_handles() == set()
            await handle.wait_finished()


async def test_task_spawned_during_teardown_is_waited_for_too() -> None:
    order: list[str] = []
    handles: list[TaskHandle] = []

    async def second() -> None:
        await sleep(0.05)
        order.append("second finished")

    async def first() -> None:
        await teardown_started.wait()
        await sleep(0.05)
        handles.append(factory.start_task_soon(second, "second"))
        handles.append(await factory.start_task(second, "third"))
        order.append("first finished")

    teardown_started = Event()
    with fail_after(5):
        async with Context():
            factory = await start_background_task_factory()
            await factory.start_task(first, "first")
            order.append("body done")
            teardown_started.set()

        order.append("context exited")

    assert order == [
        "body done",
        "first finished",
        "second finished",
        "second finished",
        "context exited",
    ]
    assert [handle.name for handle in handles] == ["second", "third"]
    assert factory.all_task_handles() == set()


async def test_teardown_with_error_in_body_still_waits() -> None:
    finished = False

    async def taskfunc() -> None:
        nonlocal finished
        await sleep(0.1)
        finished = True

    class BodyError(Exception):
        pass

    with fail_after(5):
        with pytest.raises(BodyError):
            async with Context():
                factory = await start_background_task_factory()
                await factory.start_task(taskfunc)
                raise BodyError

    assert finished


async def test_cancel_only_ends_that_task_and_teardown_waits_for_rest() -> None:
    outcomes: dict[str, str] = {}

    def make(key: str) -> Any:
        async def taskfunc() -> None:
            try:
                await sleep(0.15)
            except BaseException:
                outcomes[key] = "cancelled"
                raise

            outcomes[key] = "finished"

        return taskfunc

    with fail_after(5):
        async with Context():
            factory = await start_background_task_factory()
            handles = {key: await factory.start_task(make(key), key) for key in "abc"}
            handles["b"].cancel()
            await handles["b"].wait_finished()
            await checkpoint()
            assert factory.all_task_handles() == {handles["a"], handles["c"]}
            assert outcomes == {"b": "cancelled"}

    assert outcomes == {"a": "finished", "b": "cancelled", "c": "finished"}


async def test_context_snapshot_and_fresh_context_per_task() -> None:
    seen: list[dict[str, Any]] = []

    async def taskfunc() -> None:
        ctx = current_context()
        seen.append(
            {
                "ctx": ctx,
                "str": get_resource_nowait(str, optional=True),
                "int": get_resource_nowait(int, optional=True),
                "float": get_resource_nowait(float, optional=True),
                "bytes": get_resource_nowait(bytes, optional=True),
            }
        )
        # Private to this task's context
        add_resource(b"task-private")

    async def spawner_in_foreign_context() -> None:
        async with Context():
            add_resource(2.5)
            handle = await factory.start_task(taskfunc)
            await handle.wait_finished()
            handle = factory.start_task_soon(taskfunc)
            await handle.wait_finished()

    with fail_after(5):
        async with Context() as root:
            add_resource("before")
            factory = await start_background_task_factory()
            # Added after the factory was started: not part of the snapshot
            add_resource(7)
            handle = await factory.start_task(taskfunc)
            await handle.wait_finished()
            async with create_task_group() as tg:
                tg.start_soon(spawner_in_foreign_context)

            assert get_resource_nowait(bytes, optional=True) is None

        # A second, unrelated root context
        async with Context():
            handle_error: BaseException | None = None
            try:
                factory.start_task_soon(taskfunc)
            except BaseException as exc:
                handle_error = exc

            # The factory's task group is closed by now
            assert handle_error is not None

    assert len(seen) == 3
    for entry in seen:
        assert entry["str"] == "before"
        assert entry["int"] is None
        assert entry["float"] is None
        assert entry["bytes"] is None
        assert entry["ctx"] is not root
        assert entry["ctx"].parent.parent is root

    assert len({id(entry["ctx"]) for entry in seen}) == 3
    assert len({id(entry["ctx"].parent) for entry in seen}) == 1


async def test_all_task_handles_returns_independent_plain_sets() -> None:
    gate = Event()

    async def taskfunc() -> None:
        await gate.wait()

    with fail_after(5):
        async with Context():
            factory = await start_background_task_factory()
            empty = factory.all_task_handles()
            assert type(empty) is set
            assert empty == set()
            empty.add("junk")  # type: ignore[arg-type]
            assert factory.all_task_handles() == set()

            handle = await factory.start_task(taskfunc)
            first = factory.all_task_handles()
            second = factory.all_task_handles()
            assert type(first) is set
            assert first == second == {handle}
            assert first is not second
            first.discard(handle)
            assert factory.all_task_handles() == {handle}

            gate.set()
            await handle.wait_finished()
            await checkpoint()
            # Earlier snapshots do not change retroactively
            assert second == {handle}
            assert factory.all_task_handles() == set()


async def test_name_fallbacks() -> None:
    names: list[Any] = []

    async def taskfunc() -> None:
        names.append(get_current_task().name)

    expected = f"{__name__}.test_name_fallbacks.<locals>.taskfunc"
    async with Context():
        factory = await start_background_task_factory()
        for name in ("given", "", None, "0", " "):
            handle = await factory.start_task(taskfunc, name)
            await handle.wait_finished()
            soon_handle = factory.start_task_soon(taskfunc, name)
            await soon_handle.wait_finished()
            assert handle.name == soon_handle.name

    assert names == [
        "given",
        "given",
        expected,
        expected,
        expected,
        expected,
        "0",
        "0",
        " ",
        " ",
    ]


async def test_factory_host_service_task(caplog: LogCaptureFixture) -> None:
    caplog.set_level(logging.DEBUG, "asphalt.core")
    host_task_names: list[Any] = []

    async def taskfunc() -> None:
        await sleep(0.05)

    def handler(exc: Exception) -> bool:
        return True

    with fail_after(5):
        async with Context():
            factory = await start_background_task_factory(exception_handler=handler)
            assert isinstance(factory, TaskFactory)
            assert factory.exception_handler is handler
            other_factory = await start_background_task_factory()
            assert other_factory is not factory
            assert other_factory.exception_handler is None
            factory.start_task_soon(taskfunc, "the-task")
            host_task_names.append(f"Background task factory ({id(factory):x})")
            host_task_names.append(f"Background task factory ({id(other_factory):x})")

    messages = [
        record.getMessage() for record in caplog.records if record.name == "asphalt.core"
    ]
    for host_name in host_task_names:
        assert f"Background task (Service task: {host_name}) starting" in messages
        assert f"Waiting for service task {host_name!r} to finish" in messages
        assert f"Service task {host_name!r} finished" in messages
        assert (
            f"Background task (Service task: {host_name}) finished successfully"
            in messages
        )
        assert f"Cancelling service task {host_name!r}" not in messages
        pattern = re.compile(
            r"Calling teardown callback \(.*\) for service task "
            + re.escape(repr(host_name))
        )
        assert len([msg for msg in messages if pattern.fullmatch(msg)]) == 1

    # Torn down in reverse order of creation; the first factory's host waits for the task
    first, second = host_task_names
    assert messages.index(f"Service task {second!r} finished") < messages.index(
        f"Waiting for service task {first!r} to finish"
    )
    assert messages.index(
        "Background task (the-task) finished successfully"
    ) < messages.index(f"Service task {first!r} finished")


async def test_unhandled_error_during_teardown_wait_propagates() -> None:
    error = RuntimeError("late failure")
    sibling_outcome: list[str] = []

    async def failing() -> NoReturn:
        await teardown_started.wait()
        await sleep(0.05)
        raise error

    async def sibling() -> None:
        try:
            await sleep(3)
        except BaseException:
            sibling_outcome.append("cancelled")
            raise

        sibling_outcome.append("finished")

    teardown_started = Event()
    with fail_after(5):
        with pytest.raises(BaseExceptionGroup) as excinfo:
            async with Context():
                factory = await start_background_task_factory()
                await factory.start_task(failing)
                await factory.start_task(sibling)
                teardown_started.set()

    assert leaves(excinfo.value) == [error]
    # The error (not the teardown) is what cancelled the sibling
    assert sibling_outcome == ["cancelled"]
    assert factory.all_task_handles() == set()
