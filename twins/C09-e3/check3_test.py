"""
Property C09 checks (emphasis: every task outcome with DEBUG logging switched on,
teardown at different moments, exactly-once exception handling).

Must pass on the unchanged source and with refactor3.diff applied.
"""

from __future__ import annotations

import logging
import sys
from typing import Any, NoReturn

import pytest
from anyio import (
    Event,
    create_task_group,
    fail_after,
    get_cancelled_exc_class,
    sleep,
    wait_all_tasks_blocked,
)
from pytest import LogCaptureFixture

from asphalt.core import (
    Context,
    add_resource,
    get_resource_nowait,
    start_background_task_factory,
)

if sys.version_info < (3, 11):
    from exceptiongroup import ExceptionGroup

pytestmark = pytest.mark.anyio()


@pytest.fixture(params=["asyncio", "trio"])
def anyio_backend(request: Any) -> str:
    return request.param


@pytest.fixture(autouse=True, params=[logging.DEBUG, logging.WARNING], ids=str)
def loglevel(request: Any, caplog: LogCaptureFixture) -> int:
    caplog.set_level(request.param, "asphalt.core")
    return request.param


def flatten(exc: BaseException) -> list[BaseException]:
    if isinstance(exc, BaseExceptionGroup):
        result: list[BaseException] = []
        for sub in exc.exceptions:
            result.extend(flatten(sub))
        return result
    return [exc]


async def test_mixed_outcomes_during_teardown(
    caplog: LogCaptureFixture, loglevel: int
) -> None:
    """
    The owning context is torn down while: one task is about to return, one is about
    to raise (handled), one is being cancelled through its handle, one keeps working.
    """
    handled: list[Exception] = []
    events: list[str] = []
    release = Event()

    def handler(exc: Exception) -> bool:
        handled.append(exc)
        return True

    async def returner() -> int:
        await release.wait()
        events.append("returned")
        return 1

    async def raiser() -> NoReturn:
        await release.wait()
        events.append("raising")
        raise ZeroDivisionError("div")

    async def victim() -> None:
        try:
            await sleep(3600)
        except get_cancelled_exc_class():
            events.append("victim cancelled")
            raise

    async def worker() -> None:
        await release.wait()
        for _ in range(3):
            await sleep(0.02)

        events.append("worker done")

    async def controller() -> None:
        # runs while the owner is tearing down
        await sleep(0.05)
        assert factory.all_task_handles() == {
            h_return,
            h_raise,
            h_victim,
            h_worker,
            h_controller,
        }
        h_victim.cancel()
        await h_victim.wait_finished()
        assert h_victim not in factory.all_task_handles()
        assert len(factory.all_task_handles()) == 4
        release.set()
        await h_return.wait_finished()
        await h_raise.wait_finished()
        await wait_all_tasks_blocked()
        assert factory.all_task_handles() == {h_worker, h_controller}
        events.append("controller done")

    async with Context():
        async with Context():
            factory = await start_background_task_factory(exception_handler=handler)
            h_return = await factory.start_task(returner, "returner")
            h_raise = factory.start_task_soon(raiser, "raiser")
            h_victim = await factory.start_task(victim, "victim")
            h_worker = factory.start_task_soon(worker, "worker")
            h_controller = factory.start_task_soon(controller, "controller")

        # teardown waited for everything, cancelling nothing but the victim
        assert factory.all_task_handles() == set()
        assert sorted(events) == sorted(
            [
                "victim cancelled",
                "returned",
                "raising",
                "controller done",
                "worker done",
            ]
        )
        assert events[0] == "victim cancelled"
        assert events[-1] == "worker done"
        with fail_after(1):
            for handle in (h_return, h_raise, h_victim, h_worker, h_controller):
                await handle.wait_finished()

    assert len(handled) == 1 and isinstance(handled[0], ZeroDivisionError)
    if loglevel == logging.DEBUG:
        assert "Background task (returner) starting" in caplog.messages
        assert "Background task (returner) finished successfully" in caplog.messages

    assert "Background task (raiser) crashed" in caplog.messages


async def test_teardown_with_no_tasks_and_after_all_finished() -> None:
    async def quick() -> None:
        assert get_resource_nowait(str) == "res"

    async with Context():
        add_resource("res")
        async with Context():
            # never used
            factory = await start_background_task_factory()

        assert factory.all_task_handles() == set()
        async with Context():
            factory = await start_background_task_factory()
            handles = [await factory.start_task(quick) for _ in range(3)]
            handles.append(factory.start_task_soon(quick))
            with fail_after(5):
                for handle in handles:
                    await handle.wait_finished()

            await wait_all_tasks_blocked()
            assert factory.all_task_handles() == set()


async def test_no_handler_error_propagates_and_siblings_are_waited_for() -> None:
    """
    Without a handler the Exception escapes from the root context. Tasks of another
    factory that already finished are unaffected; the handle set ends up empty.
    """
    done: list[str] = []

    async def ok() -> None:
        done.append("ok")

    async def bad() -> NoReturn:
        await sleep(0.02)
        raise ConnectionError("unhandled")

    with pytest.raises(ExceptionGroup) as excinfo:
        async with Context():
            factory = await start_background_task_factory()
            h_ok = await factory.start_task(ok, "ok")
            await h_ok.wait_finished()
            h_bad = factory.start_task_soon(bad, "bad")
            assert factory.all_task_handles() == {h_bad}

    leaves = flatten(excinfo.value)
    assert len(leaves) == 1
    assert isinstance(leaves[0], ConnectionError)
    assert done == ["ok"]
    assert factory.all_task_handles() == set()


async def test_handler_called_once_per_failing_task() -> None:
    handled: list[str] = []

    def handler(exc: Exception) -> bool:
        handled.append(str(exc))
        return True

    def make(index: int) -> Any:
        async def fail() -> NoReturn:
            await sleep(0.01 * (index % 3))
            raise RuntimeError(f"task {index}")

        return fail

    async with Context():
        factory = await start_background_task_factory(exception_handler=handler)

        async def spawner(offset: int) -> None:
            # spawn concurrently from several foreign tasks
            for index in range(offset, offset + 4):
                if index % 2:
                    await factory.start_task(make(index), f"t{index}")
                else:
                    factory.start_task_soon(make(index), f"t{index}")

        async with create_task_group() as tg:
            tg.start_soon(spawner, 0)
            tg.start_soon(spawner, 4)
            tg.start_soon(spawner, 8)

    assert sorted(handled) == sorted(f"task {index}" for index in range(12))
    assert factory.all_task_handles() == set()


async def test_cancel_before_first_step_and_wait_from_many_waiters() -> None:
    ran = False
    woken: list[int] = []

    async def never_runs() -> None:
        nonlocal ran
        await sleep(0)
        ran = True  # pragma: no cover

    async def bystander() -> None:
        await sleep(0.05)
        woken.append(-1)

    async def waiter(index: int) -> None:
        await handle.wait_finished()
        woken.append(index)

    async with Context():
        factory = await start_background_task_factory()
        other = await factory.start_task(bystander, "bystander")
        handle = factory.start_task_soon(never_runs, "never_runs")
        handle.cancel()  # cancelled before the task got to take a single step
        assert factory.all_task_handles() == {other, handle}
        with fail_after(5):
            async with create_task_group() as tg:
                for index in range(3):
                    tg.start_soon(waiter, index)

        assert sorted(woken) == [0, 1, 2]
        await wait_all_tasks_blocked()
        assert factory.all_task_handles() == {other}

    assert not ran
    assert sorted(woken) == [-1, 0, 1, 2]
