"""Loader: parse the package under analysis, build a symbol index.

Nothing here imports or executes the code under analysis.
"""
from __future__ import annotations

import ast
import hashlib
import os
from dataclasses import dataclass, field
from typing import Iterator, Optional


class AnalysisError(Exception):
    """The checker cannot conclude (anchor missing, unparsable file, ...)."""


@dataclass
class Module:
    name: str  # e.g. "_context"
    path: str  # absolute path
    relpath: str  # relative to repo root
    src: str
    tree: ast.Module
    sha256: str
    imports: dict = field(default_factory=dict)  # local name -> ("pkg", mod, sym) | ("ext", dotted)
    functions: dict = field(default_factory=dict)  # top-level name -> FuncInfo
    classes: dict = field(default_factory=dict)  # top-level name -> ClassInfo
    assigns: dict = field(default_factory=dict)  # top-level name -> value expr


@dataclass(eq=False)
class ClassInfo:
    name: str
    node: ast.ClassDef
    module: Module
    bases: list  # list of base expr
    methods: dict = field(default_factory=dict)  # name -> FuncInfo (non-overload)
    annotations: dict = field(default_factory=dict)  # attr -> annotation expr (class level)
    assigns: dict = field(default_factory=dict)  # attr -> value expr (class level)
    decorators: list = field(default_factory=list)

    @property
    def qualname(self) -> str:
        return f"{self.module.name}.{self.name}"

    def __repr__(self) -> str:
        return f"<class {self.qualname}>"


@dataclass(eq=False)
class FuncInfo:
    name: str
    qualname: str
    node: ast.AST  # FunctionDef | AsyncFunctionDef | Lambda
    module: Module
    cls: Optional[ClassInfo]
    parent: Optional["FuncInfo"]
    decorators: list = field(default_factory=list)  # decorator base names
    nested: dict = field(default_factory=dict)  # name -> FuncInfo

    @property
    def is_async(self) -> bool:
        return isinstance(self.node, ast.AsyncFunctionDef)

    @property
    def is_lambda(self) -> bool:
        return isinstance(self.node, ast.Lambda)

    @property
    def body(self) -> list:
        if self.is_lambda:
            return [ast.Return(value=self.node.body, lineno=self.node.lineno, col_offset=0)]
        return self.node.body

    @property
    def params(self) -> list:
        a = self.node.args
        out = [x.arg for x in a.posonlyargs + a.args]
        if a.vararg:
            out.append(a.vararg.arg)
        out += [x.arg for x in a.kwonlyargs]
        if a.kwarg:
            out.append(a.kwarg.arg)
        return out

    def param_annotation(self, name: str):
        a = self.node.args
        for x in a.posonlyargs + a.args + a.kwonlyargs + [y for y in (a.vararg, a.kwarg) if y]:
            if x.arg == name:
                return x.annotation
        return None

    def param_default(self, name: str):
        a = self.node.args
        pos = a.posonlyargs + a.args
        defaults = [None] * (len(pos) - len(a.defaults)) + list(a.defaults)
        for x, d in zip(pos, defaults):
            if x.arg == name:
                return d
        for x, d in zip(a.kwonlyargs, a.kw_defaults):
            if x.arg == name:
                return d
        return None

    @property
    def owner_class(self) -> Optional[ClassInfo]:
        """The class whose ``self`` is visible in this function (itself or enclosing)."""
        f = self
        while f is not None:
            if f.cls is not None:
                return f.cls
            f = f.parent
        return None

    @property
    def is_generator(self) -> bool:
        for n in walk_own(self.node):
            if isinstance(n, (ast.Yield, ast.YieldFrom)):
                return True
        return False

    def loc(self, node: ast.AST | None = None) -> str:
        n = node if node is not None else self.node
        # statements moved here by the inlining pre-pass keep their true source position
        return f"{getattr(n, '_inlined_relpath', self.module.relpath)}:{getattr(n, 'lineno', 0)}"

    def __repr__(self) -> str:
        return f"<func {self.qualname}>"


def exc_expr(raise_node: ast.Raise):
    """What a raise statement raises: the expression itself, or - for `raise NAME` where NAME
    is a local bound exactly once to a constructor call (`exc = TimeoutError(...); ...;
    raise exc`) - that call (annotated by the normalisation pre-pass)."""
    return getattr(raise_node, "_exc_resolved", None) or raise_node.exc


def walk_own(node: ast.AST) -> Iterator[ast.AST]:
    """Walk the nodes that belong to this function body, not descending into nested
    function definitions / lambdas / classes (their headers' defaults and decorators are
    evaluated here, so those are visited)."""
    body = getattr(node, "body", [])
    stack = list(body) if isinstance(body, list) else [body]
    while stack:
        n = stack.pop()
        yield n
        if isinstance(n, (ast.FunctionDef, ast.AsyncFunctionDef)):
            stack.extend(n.decorator_list)
            stack.extend(n.args.defaults)
            stack.extend(d for d in n.args.kw_defaults if d is not None)
            continue
        if isinstance(n, ast.Lambda):
            stack.extend(n.args.defaults)
            stack.extend(d for d in n.args.kw_defaults if d is not None)
            continue
        if isinstance(n, ast.ClassDef):
            continue
        stack.extend(ast.iter_child_nodes(n))


def deco_name(d: ast.AST) -> str:
    if isinstance(d, ast.Call):
        d = d.func
    if isinstance(d, ast.Attribute):
        return d.attr
    if isinstance(d, ast.Name):
        return d.id
    return ast.unparse(d)


def dotted(expr: ast.AST) -> Optional[str]:
    parts = []
    while isinstance(expr, ast.Attribute):
        parts.append(expr.attr)
        expr = expr.value
    if isinstance(expr, ast.Name):
        parts.append(expr.id)
        return ".".join(reversed(parts))
    return None


class Project:
    """All modules of src/asphalt/core (the package under analysis)."""

    PKG_DIR = os.path.join("src", "asphalt", "core")

    def __init__(self, root: str, overrides: dict | None = None, inline: bool = True):
        """``overrides``: relpath -> source text, used by the self-test to analyse
        in-memory variants of the tree."""
        self.root = root
        self.modules: dict[str, Module] = {}
        self.functions: dict[str, FuncInfo] = {}
        self.classes: dict[str, ClassInfo] = {}
        self._func_by_node: dict[int, FuncInfo] = {}
        overrides = overrides or {}
        pkg = os.path.join(root, self.PKG_DIR)
        if not os.path.isdir(pkg):
            raise AnalysisError(f"anchor-missing package directory {pkg}")
        names = sorted(f for f in os.listdir(pkg) if f.endswith(".py"))
        if not names:
            raise AnalysisError(f"anchor-missing no python files in {pkg}")
        for fn in names:
            path = os.path.join(pkg, fn)
            rel = os.path.join(self.PKG_DIR, fn)
            if rel in overrides:
                src = overrides[rel]
            else:
                with open(path, encoding="utf-8") as fh:
                    src = fh.read()
            try:
                tree = ast.parse(src, filename=path)
            except SyntaxError as e:
                raise AnalysisError(f"cannot parse {rel}: {e}") from e
            mod = Module(
                name=fn[:-3],
                path=path,
                relpath=rel,
                src=src,
                tree=tree,
                sha256=hashlib.sha256(src.encode()).hexdigest(),
            )
            self.modules[mod.name] = mod
        if inline:
            from .normalize import normalize_tree

            for mod in self.modules.values():
                normalize_tree(mod.tree)
        for mod in self.modules.values():
            self._index_module(mod)
        self.inline_log: list = []
        if inline:
            from .effects import Analysis
            from .inline import Inliner

            inl = Inliner(self, Analysis(self))
            inl.run()
            self.inline_log = inl.log

    def reindex(self) -> None:
        self.functions = {}
        self.classes = {}
        self._func_by_node = {}
        for mod in self.modules.values():
            mod.imports, mod.functions, mod.classes, mod.assigns = {}, {}, {}, {}
        for mod in self.modules.values():
            self._index_module(mod)

    # ------------------------------------------------------------------ indexing
    def _index_module(self, mod: Module) -> None:
        for n in ast.walk(mod.tree):
            if isinstance(n, ast.ImportFrom):
                for a in n.names:
                    local = a.asname or a.name
                    if n.level >= 1:
                        target = (n.module or "").split(".")[0]
                        if n.module:
                            mod.imports[local] = ("pkg", target, a.name)
                        else:
                            mod.imports[local] = ("pkgmod", a.name, None)
                    else:
                        mod.imports[local] = ("ext", f"{n.module}.{a.name}")
            elif isinstance(n, ast.Import):
                for a in n.names:
                    local = a.asname or a.name.split(".")[0]
                    mod.imports[local] = ("ext", a.name if a.asname else a.name.split(".")[0])
        self._index_body(mod, mod.tree.body, None, None, mod.name)

    def _index_body(self, mod, body, cls, parent, prefix) -> None:
        for st in body:
            if isinstance(st, (ast.FunctionDef, ast.AsyncFunctionDef)):
                self._index_func(mod, st, cls, parent, prefix)
            elif isinstance(st, ast.ClassDef) and parent is None and cls is None:
                ci = ClassInfo(st.name, st, mod, list(st.bases), decorators=[deco_name(d) for d in st.decorator_list])
                mod.classes[st.name] = ci
                self.classes[st.name] = ci
                for cst in st.body:
                    if isinstance(cst, ast.AnnAssign) and isinstance(cst.target, ast.Name):
                        ci.annotations[cst.target.id] = cst.annotation
                        if cst.value is not None:
                            ci.assigns[cst.target.id] = cst.value
                    elif isinstance(cst, ast.Assign):
                        for t in cst.targets:
                            if isinstance(t, ast.Name):
                                ci.assigns[t.id] = cst.value
                self._index_body(mod, st.body, ci, None, f"{prefix}.{st.name}")
            elif isinstance(st, (ast.If, ast.Try)) and parent is None:
                # module-level conditional definitions (version checks)
                for sub in ast.iter_child_nodes(st):
                    if isinstance(sub, ast.stmt):
                        self._index_body(mod, [sub], cls, parent, prefix)
                    elif isinstance(sub, ast.ExceptHandler):
                        self._index_body(mod, sub.body, cls, parent, prefix)
            elif parent is None and cls is None:
                if isinstance(st, ast.Assign):
                    for t in st.targets:
                        if isinstance(t, ast.Name):
                            mod.assigns[t.id] = st.value
                elif isinstance(st, ast.AnnAssign) and isinstance(st.target, ast.Name) and st.value is not None:
                    mod.assigns[st.target.id] = st.value

    def _index_func(self, mod, node, cls, parent, prefix) -> None:
        decos = [deco_name(d) for d in node.decorator_list]
        qual = f"{prefix}.{node.name}"
        fi = FuncInfo(node.name, qual, node, mod, cls, parent, decos)
        self._func_by_node[id(node)] = fi
        if "overload" in decos:
            return
        self.functions[qual] = fi
        if parent is not None:
            parent.nested[node.name] = fi
        elif cls is not None:
            cls.methods[node.name] = fi
        else:
            mod.functions[node.name] = fi
        # nested defs anywhere in the body (not inside nested defs themselves)
        for n in walk_own(node):
            if isinstance(n, (ast.FunctionDef, ast.AsyncFunctionDef)):
                self._index_func(mod, n, None, fi, qual)
        # lambdas get a FuncInfo on demand (see lambda_info)

    def lambda_info(self, owner: FuncInfo, node: ast.Lambda) -> FuncInfo:
        fi = self._func_by_node.get(id(node))
        if fi is None:
            fi = FuncInfo("<lambda>", f"{owner.qualname}.<lambda@{node.lineno}>", node, owner.module, None, owner)
            self._func_by_node[id(node)] = fi
        return fi

    # ------------------------------------------------------------------ lookup
    def func(self, qualname: str) -> FuncInfo:
        try:
            return self.functions[qualname]
        except KeyError:
            raise AnalysisError(f"anchor-missing function {qualname}") from None

    def find_func(self, qualname: str) -> Optional[FuncInfo]:
        return self.functions.get(qualname)

    def cls(self, name: str) -> ClassInfo:
        try:
            return self.classes[name]
        except KeyError:
            raise AnalysisError(f"anchor-missing class {name}") from None

    def public(self, name: str):
        """Resolve a public API name re-exported from the package __init__."""
        init = self.modules.get("__init__")
        if init is not None and name in init.imports:
            kind, modname, sym = init.imports[name]
            if kind == "pkg":
                return self.symbol(modname, sym)
        for mod in self.modules.values():
            if name in mod.functions:
                return mod.functions[name]
            if name in mod.classes:
                return mod.classes[name]
        raise AnalysisError(f"anchor-missing public name {name}")

    def symbol(self, modname: str, sym: str, _depth: int = 0):
        mod = self.modules.get(modname)
        if mod is None:
            return None
        if sym in mod.functions:
            return mod.functions[sym]
        if sym in mod.classes:
            return mod.classes[sym]
        if sym in mod.imports and _depth < 5:
            imp = mod.imports[sym]
            if imp[0] == "pkg":
                return self.symbol(imp[1], imp[2], _depth + 1)
            return imp
        if sym in mod.assigns:
            return ("assign", mod, sym)
        return None

    def mro(self, ci: ClassInfo) -> list:
        out, seen = [], set()
        stack = [ci]
        while stack:
            c = stack.pop(0)
            if id(c) in seen:
                continue
            seen.add(id(c))
            out.append(c)
            for b in c.bases:
                if isinstance(b, ast.Subscript):
                    b = b.value
                bn = dotted(b)
                if bn and bn.split(".")[-1] in self.classes:
                    stack.append(self.classes[bn.split(".")[-1]])
        return out

    def method(self, ci: ClassInfo, name: str) -> Optional[FuncInfo]:
        for c in self.mro(ci):
            if name in c.methods:
                return c.methods[name]
        return None

    def is_subclass(self, ci: ClassInfo, base: str) -> bool:
        return any(c.name == base for c in self.mro(ci))

    def all_functions(self) -> list:
        return list(self.functions.values())

    def files_evidence(self) -> list:
        return [
            {"path": m.relpath, "sha256": m.sha256, "functions": sum(1 for f in self.functions.values() if f.module is m)}
            for m in self.modules.values()
        ]
