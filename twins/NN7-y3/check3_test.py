"""
Behaviour checks for refactoring 3 (ComponentContext: private attribute renames across
the package, resource description formatter moved to the utilities module).

Everything goes through the public API only.
"""

from __future__ import annotations

import logging
from typing import Any

import anyio
import pytest
from anyio import fail_after
from pytest import LogCaptureFixture

from asphalt.core import (
    Component,
    ComponentStartError,
    Context,
    ResourceNotFound,
    add_resource,
    add_resource_factory,
    add_teardown_callback,
    current_context,
    get_resource,
    get_resource_nowait,
    get_resources,
    start_component,
)

pytestmark = pytest.mark.anyio()


@pytest.fixture(params=["asyncio", "trio"])
def anyio_backend(request: Any) -> str:
    return request.param


def component_messages(caplog: LogCaptureFixture, prefix: str) -> list[str]:
    return [msg for msg in caplog.messages if msg.startswith(prefix)]


async def test_contexts_created_in_components_skip_component_contexts() -> None:
    seen: dict[str, Any] = {}

    class GrandChild(Component):
        async def start(self) -> None:
            add_resource("deep resource")
            component_ctx = current_context()
            async with Context() as inner:
                seen["grandchild parent"] = inner.parent
                seen["grandchild current"] = current_context()
                # Resources of the surrounding context are inherited
                seen["grandchild inherited"] = inner.get_resource_nowait(str, "gc")
                inner.add_resource(1, "inner_only")

            seen["grandchild component ctx"] = component_ctx
            seen["after inner"] = get_resource_nowait(int, "inner_only", optional=True)

    class Child(Component):
        def __init__(self) -> None:
            self.add_component("grand/gc", GrandChild)

        async def prepare(self) -> None:
            async with Context() as inner:
                seen["child parent"] = inner.parent

            explicit = Context(current_context())
            seen["explicit parent"] = explicit.parent

    class Root(Component):
        def __init__(self) -> None:
            self.add_component("child", Child)

    async with Context() as ctx:
        await start_component(Root)
        assert seen["child parent"] is ctx
        assert seen["explicit parent"] is ctx
        assert seen["grandchild parent"] is ctx
        assert seen["grandchild current"] is not ctx
        assert seen["grandchild inherited"] == "deep resource"
        assert seen["after inner"] is None
        component_ctx = seen["grandchild component ctx"]
        assert component_ctx is not ctx
        assert component_ctx.parent is ctx
        assert current_context() is ctx
        assert dict(component_ctx.get_resources(str)) == {"gc": "deep resource"}


async def test_startup_timeout_report(caplog: LogCaptureFixture) -> None:
    class StuckInPrepare(Component):
        async def prepare(self) -> None:
            await anyio.sleep_forever()

    class StuckInStart(Component):
        async def prepare(self) -> None:
            await anyio.sleep(0)

        async def start(self) -> None:
            await get_resource(float, "missing")

    class Fine(Component):
        async def start(self) -> None:
            add_resource("ok")

    class Middle(Component):
        def __init__(self) -> None:
            self.add_component("stuck_start", StuckInStart)
            self.add_component("fine", Fine)

    class Root(Component):
        def __init__(self) -> None:
            self.add_component("middle", Middle)
            self.add_component("stuck_prepare", StuckInPrepare)

        async def prepare(self) -> None:
            add_resource(1)

    caplog.set_level(logging.DEBUG, "asphalt.core")
    async with Context() as ctx:
        with pytest.raises(TimeoutError, match="timeout starting component tree"):
            with fail_after(5):
                await start_component(Root, timeout=0.3)

        assert ctx.get_resource_nowait(str) == "ok"
        assert ctx.get_resource_nowait(int) == 1

    error_records = [rec for rec in caplog.records if rec.levelno == logging.ERROR]
    assert len(error_records) == 1
    sections = error_records[0].getMessage().split("\n\n")
    qualname_prefix = f"{__name__}.test_startup_timeout_report.<locals>"
    assert sections[0] == "Timeout waiting for the component tree to start"
    assert sections[1].startswith(
        "Current status of the components still waiting to finish startup\n---"
    )
    assert sections[2] == (
        "(root): starting children\n"
        "  middle: starting children\n"
        "    stuck_start: starting\n"
        "  stuck_prepare: preparing"
    )
    assert sections[3].startswith(
        "Stack summaries of components still waiting to start\n---"
    )
    # Only the components with a pending prepare() or start() call are listed
    assert len(sections) == 6
    title, _, body = sections[4].partition("\n")
    assert title == f"middle.stuck_start ({qualname_prefix}.StuckInStart):"
    assert 'await get_resource(float, "missing")' in body
    assert "in start" in body
    title, _, body = sections[5].partition("\n")
    assert title == f"stuck_prepare ({qualname_prefix}.StuckInPrepare):"
    assert "await anyio.sleep_forever()" in body
    assert "in prepare" in body


async def test_resource_descriptions(caplog: LogCaptureFixture) -> None:
    class Custom:
        pass

    def int_factory() -> int:
        return 3

    class Root(Component):
        async def start(self) -> None:
            custom = Custom()
            add_resource(custom)
            add_resource(custom, "named", description="with description")
            add_resource(custom, "listed", [Custom, object], description="")
            add_resource(custom, "tupled", (Custom,))
            add_resource(custom, "single", object)
            add_resource_factory(int_factory)
            add_resource_factory(int_factory, "named", description="int factory")
            add_resource_factory(lambda: 1.5, types=float)
            add_resource_factory(lambda: b"", "many", types=(bytes, bytearray))
            await get_resource(int, "named")

    caplog.set_level(logging.DEBUG, "asphalt.core")
    async with Context():
        await start_component(Root)

    custom_name = f"{__name__}.test_resource_descriptions.<locals>.Custom"
    assert component_messages(caplog, "The root component") == [
        f"The root component added a resource (type={custom_name}, name='default')",
        f"The root component added a resource (type={custom_name}, name='named', "
        f"description='with description')",
        f"The root component added a resource (types=[{custom_name}, object], "
        f"name='listed')",
        f"The root component added a resource (types=[{custom_name}], name='tupled')",
        "The root component added a resource (type=object, name='single')",
        "The root component added a resource factory (type=int, name='default')",
        "The root component added a resource factory (type=int, name='named', "
        "description='int factory')",
        "The root component added a resource factory (type=float, name='default')",
        "The root component added a resource factory (types=[bytes, bytearray], "
        "name='many')",
    ]


async def test_waiting_messages(caplog: LogCaptureFixture) -> None:
    class Provider(Component):
        async def start(self) -> None:
            await anyio.sleep(0.05)
            add_resource(7, description="lucky")

    class Consumer(Component):
        async def start(self) -> None:
            assert await get_resource(int, "seven") == 7

    class Root(Component):
        def __init__(self) -> None:
            self.add_component("consumer", Consumer)
            self.add_component("provider/seven", Provider)

    caplog.set_level(logging.DEBUG, "asphalt.core")
    async with Context():
        with fail_after(5):
            await start_component(Root)

    assert [
        msg
        for msg in caplog.messages
        if msg.startswith("Component") and "resource" in msg
    ] == [
        "Component 'consumer' is waiting for another component to provide a resource "
        "(type=int, name='seven')",
        "Component 'provider/seven' added a resource (type=int, name='seven', "
        "description='lucky')",
        "Component 'consumer' got the resource it was waiting for (type=int, "
        "name='seven')",
    ]


async def test_teardown_callbacks_run_with_surrounding_context() -> None:
    calls: list[Any] = []

    class Child(Component):
        async def start(self) -> None:
            add_teardown_callback(lambda: calls.append("child plain"))
            add_teardown_callback(
                lambda exc: calls.append(("child exc", exc)), pass_exception=True
            )

    class Root(Component):
        def __init__(self) -> None:
            self.add_component("child", Child)

        async def start(self) -> None:
            async def async_callback() -> None:
                await anyio.sleep(0)
                calls.append("root async")

            current_context().add_teardown_callback(async_callback)

    error = RuntimeError("ending the context")
    with pytest.raises(RuntimeError) as exc_info:
        async with Context():
            await start_component(Root)
            assert calls == []
            raise error

    assert exc_info.value is error
    assert calls == ["root async", ("child exc", error), "child plain"]


async def test_errors_from_delegated_calls(caplog: LogCaptureFixture) -> None:
    class BadCallback(Component):
        async def start(self) -> None:
            add_teardown_callback("not callable")  # type: ignore[arg-type]

    class MissingResource(Component):
        async def start(self) -> None:
            assert get_resource_nowait(str, optional=True) is None
            assert dict(get_resources(str)) == {}
            get_resource_nowait(str, "missing")

    class FailingPrepare(Component):
        async def prepare(self) -> None:
            raise LookupError("prepare failed")

        async def start(self) -> None:
            pytest.fail("start() should not be called")

    caplog.set_level(logging.DEBUG, "asphalt.core")
    async with Context():
        with pytest.raises(
            ComponentStartError, match="error starting the root component"
        ) as exc_info:
            await start_component(BadCallback)

        assert type(exc_info.value.__cause__) is TypeError
        assert str(exc_info.value.__cause__) == "callback must be a callable"

        with pytest.raises(
            ComponentStartError, match="error starting component 'sub'"
        ) as exc_info:
            await start_component(
                Component, {"components": {"sub": {"type": MissingResource}}}
            )

        cause = exc_info.value.__cause__
        assert type(cause) is ResourceNotFound
        assert (cause.type, cause.name) == (str, "missing")

        with pytest.raises(
            ComponentStartError, match="error preparing the root component"
        ) as exc_info:
            await start_component(FailingPrepare)

        assert type(exc_info.value.__cause__) is LookupError

    assert not [rec for rec in caplog.records if rec.levelno >= logging.WARNING]
