"""Catalogue of source-level variants of the current tree.

kind='break': the property is broken, the variant still compiles; the check must report a
              VIOLATION naming (one of) the listed rule(s).
kind='twin':  behaviour-preserving refactoring; the check must stay silent.

Each variant is a list of exact (old, new) text edits on one file; an edit that does not
apply (the tree was edited) makes the variant 'n/a', which is informational only.
"""

MUTANTS: list = []


def M(id, prop, file, rules, what, *edits, kind="break", count=1, control=True):
    MUTANTS.append({"id": id, "prop": prop, "file": file, "rules": rules if isinstance(rules, list) else [rules], "what": what, "edits": list(edits), "kind": kind, "count": count, "control": control})


def T(id, prop, file, what, *edits, count=1):
    M(id, prop, file, [], what, *edits, kind="twin", count=count)


# =============================================================================== C03
_ADD_RES_TAIL = '''        # Add the teardown callback, if any (this validates the callback, so it has to
        # happen before the resource is made available)
        if teardown_callback is not None:
            self.add_teardown_callback(teardown_callback)

        container = ResourceContainer(value, types_, name, description)
        for type_ in types_:
            self._resources[(type_, name)] = container
'''
M("c03-f5-inverse", "C03", "_context.py", "C03.R1", "register (and validate) the teardown callback after the insertion (pre-fix F5)",
  (_ADD_RES_TAIL, '''        container = ResourceContainer(value, types_, name, description)
        for type_ in types_:
            self._resources[(type_, name)] = container

        if teardown_callback is not None:
            self.add_teardown_callback(teardown_callback)
'''))
_CONFLICT_LOOP = '''        for resource_type in types_:
            if (resource_type, name) in self._resources:
                raise ResourceConflict(
                    f"this context already contains a resource of type "
                    f"{qualified_name(resource_type)} using the name {name!r}"
                )

'''
M("c03-check-inside-insert-loop", "C03", "_context.py", ["C03.R2", "C03.R1"], "conflict check interleaved with insertion: a conflict on the second type leaves the first inserted",
  (_CONFLICT_LOOP, ""),
  ('''        for type_ in types_:
            self._resources[(type_, name)] = container
''', '''        for type_ in types_:
            if (type_, name) in self._resources:
                raise ResourceConflict("conflict")
            self._resources[(type_, name)] = container
'''))
M("c03-check-first-type-only", "C03", "_context.py", "C03.R2", "conflict check looks only at the first type",
  (_CONFLICT_LOOP, '''        if (types_[0], name) in self._resources:
            raise ResourceConflict("conflict")

'''))
M("c03-check-wrong-name", "C03", "_context.py", "C03.R2", "factory conflict check ignores the requested name",
  ("if (type_, name) in self._resource_factories:", 'if (type_, "default") in self._resource_factories:'))
M("c03-no-conflict-check", "C03", "_context.py", "C03.R2", "no conflict check for factories at all",
  ('''            if (type_, name) in self._resource_factories:
                raise ResourceConflict(
                    f"this context already contains a resource factory for the "
                    f"type {qualified_name(type_)}"
                )
''', "            pass\n"))
M("c03-f3-inverse", "C03", "_context.py", "C03.R3", "generation overwrites occupied keys (pre-fix F3)",
  ("self._resources.setdefault((type_, factory.name), container)", "self._resources[(type_, factory.name)] = container"), count=2)
M("c03-value-check-after-insert", "C03", "_context.py", "C03.R1", "None-value validation after the insertion",
  ('''        if value is None:
            raise ValueError('"value" must not be None')

''', ""),
  ('''        for type_ in types_:
            self._resources[(type_, name)] = container
''', '''        for type_ in types_:
            self._resources[(type_, name)] = container

        if value is None:
            raise ValueError('"value" must not be None')
'''))
M("c03-pop-on-async-error", "C03", "_context.py", "C03.R4", "a lookup removes a registered resource",
  ('''        if optional:
            return None

        raise ResourceNotFound(type, name)

    @overload
    async def get_resource(''', '''        if optional:
            self._resources.pop((object, name), None)
            return None

        raise ResourceNotFound(type, name)

    @overload
    async def get_resource('''))
M("c03-wrapper-raises-after-delegate", "C03", "_component.py", "C03.R1", "component wrapper validates after delegating",
  ('''        logger.debug(
            "%s added a resource (%s)",''', '''        if description is not None and not isinstance(description, str):
            raise TypeError("description must be a string")

        logger.debug(
            "%s added a resource (%s)",'''))
T("c03-twin-early-validate-late-register", "C03", "_context.py", "explicit callable() validation first, registration after the insertion (the other F5 repair)",
  (_ADD_RES_TAIL, '''        container = ResourceContainer(value, types_, name, description)
        for type_ in types_:
            self._resources[(type_, name)] = container

        # Add the teardown callback, if any
        if teardown_callback is not None:
            self.add_teardown_callback(teardown_callback)
'''),
  ('''        if value is None:
            raise ValueError('"value" must not be None')
''', '''        if value is None:
            raise ValueError('"value" must not be None')

        if teardown_callback is not None and not callable(teardown_callback):
            raise TypeError("teardown_callback must be a callable")
'''))
T("c03-twin-any-check", "C03", "_context.py", "conflict check written with any()",
  (_CONFLICT_LOOP, '''        if any((resource_type, name) in self._resources for resource_type in types_):
            raise ResourceConflict("this context already contains such a resource")

'''))
T("c03-twin-guarded-store", "C03", "_context.py", "generation store guarded by a not-in test instead of setdefault",
  ("self._resources.setdefault((type_, factory.name), container)", '''if (type_, factory.name) not in self._resources:
                    self._resources[(type_, factory.name)] = container'''), count=2)
T("c03-twin-rename", "C03", "_context.py", "rename locals in add_resource",
  ("container = ResourceContainer(value, types_, name, description)\n        for type_ in types_:\n            self._resources[(type_, name)] = container",
   "holder = ResourceContainer(value, types_, name, description)\n        for res_type in types_:\n            self._resources[(res_type, name)] = holder"))

# =============================================================================== C04
_ASYNC_CONTAINER = '''                generated_resource = await generated_resource

            container = ResourceContainer(
                generated_resource,
                factory.types,
                factory.name,
                factory.description,
                is_generated=True,
            )'''
M("c04-f2-inverse", "C04", "_context.py", "C04.R1", "async lookup stores the product without the generated flag (pre-fix F2)",
  (_ASYNC_CONTAINER, _ASYNC_CONTAINER.replace("                is_generated=True,\n", "")))
_SYNC_CONTAINER = '''            # Store the generated resource in the context
            container = ResourceContainer(
                generated_resource,
                factory.types,
                factory.name,
                factory.description,
                is_generated=True,
            )'''
M("c04-sync-flag-dropped", "C04", "_context.py", "C04.R1", "sync lookup stores the product without the generated flag",
  (_SYNC_CONTAINER, _SYNC_CONTAINER.replace("                is_generated=True,\n", "")))
M("c04-children-inherit-generated", "C04", "_context.py", "C04.R2", "child contexts copy generated resources too",
  ('''            self._resources = {
                key: res
                for key, res in self._parent._resources.items()
                if not res.is_generated
            }''', "            self._resources = dict(self._parent._resources)"))
M("c04-filter-inverted", "C04", "_context.py", "C04.R2", "child contexts copy only generated resources",
  ("                if not res.is_generated\n", "                if res.is_generated\n"))
M("c04-no-coroutine-test", "C04", "_context.py", "C04.R3", "sync lookup stores the coroutine object of an async factory",
  ('''            if iscoroutine(generated_resource):
                generated_resource.close()
                raise AsyncResourceError()
''', ""))
M("c04-coroutine-test-after-store", "C04", "_context.py", "C04.R3", "AsyncResourceError raised after the coroutine was stored",
  ('''            if iscoroutine(generated_resource):
                generated_resource.close()
                raise AsyncResourceError()
''', ""),
  ('''            # Dispatch the resource_added event to notify any listeners
            self.resource_added.dispatch(
                ResourceEvent(factory.types, name, factory.description, False)
            )

            return cast(T_Resource, generated_resource)

        if optional:
            return None

        raise ResourceNotFound(type, name)

    @overload
    async def get_resource(''', '''            if iscoroutine(generated_resource):
                generated_resource.close()
                raise AsyncResourceError()

            # Dispatch the resource_added event to notify any listeners
            self.resource_added.dispatch(
                ResourceEvent(factory.types, name, factory.description, False)
            )

            return cast(T_Resource, generated_resource)

        if optional:
            return None

        raise ResourceNotFound(type, name)

    @overload
    async def get_resource('''))
M("c04-store-in-parent", "C04", "_context.py", ["C04.R5", "C04.R1"], "async lookup caches the product in the parent context",
  ('''                generated_resource = await generated_resource
''', '''                generated_resource = await generated_resource
''', ),
  (_ASYNC_CONTAINER + '''
            for type_ in factory.types:
                # Don't replace a resource already present under one of the types
                self._resources.setdefault((type_, factory.name), container)''', _ASYNC_CONTAINER + '''
            for type_ in factory.types:
                # Don't replace a resource already present under one of the types
                (self._parent or self)._resources.setdefault((type_, factory.name), container)'''))
M("c04-async-first-type-only", "C04", "_context.py", "C04.R1", "async lookup stores the product only under the requested key",
  (_ASYNC_CONTAINER + '''
            for type_ in factory.types:
                # Don't replace a resource already present under one of the types
                self._resources.setdefault((type_, factory.name), container)''', _ASYNC_CONTAINER + '''
            self._resources.setdefault(key, container)'''))
M("c04-f6-widen", "C04", "_context.py", "C04.R4", "sync lookup sleeps between miss and store? (a second checkpoint in the async window)",
  ('''            container = ResourceContainer(
                generated_resource,
                factory.types,
                factory.name,
                factory.description,
                is_generated=True,
            )
            for type_ in factory.types:
                # Don't replace a resource already present under one of the types
                self._resources.setdefault((type_, factory.name), container)

            # Dispatch the resource_added event to notify any listeners
            self.resource_added.dispatch(
                ResourceEvent(factory.types, name, factory.description, False)
            )

            return cast(T_Resource, generated_resource)

        if optional:
            return None

        raise ResourceNotFound(type, name)

    def get_resources(''', '''            container = ResourceContainer(
                generated_resource,
                factory.types,
                factory.name,
                factory.description,
                is_generated=True,
            )
            await self._yield_to_loop()
            for type_ in factory.types:
                # Don't replace a resource already present under one of the types
                self._resources.setdefault((type_, factory.name), container)

            # Dispatch the resource_added event to notify any listeners
            self.resource_added.dispatch(
                ResourceEvent(factory.types, name, factory.description, False)
            )

            return cast(T_Resource, generated_resource)

        if optional:
            return None

        raise ResourceNotFound(type, name)

    async def _yield_to_loop(self) -> None:
        from anyio import sleep

        await sleep(0)

    def get_resources('''), control=False)
T("c04-twin-event-name-from-factory", "C04", "_context.py", "event carries factory.name instead of the requested name (equal by invariant)",
  ("ResourceEvent(factory.types, name, factory.description, False)", "ResourceEvent(factory.types, factory.name, factory.description, False)"), count=2)
T("c04-twin-rename-locals", "C04", "_context.py", "rename the generated value variable in both lookups",
  ("generated_resource", "product"), count=None)

# =============================================================================== C11
M("c11-f1-inverse", "C11", "_event.py", "C11.R1", "bound-signal table keyed by the instance alone (pre-fix F1)",
  ('T_Event = TypeVar("T_Event", bound="Event")\n', 'T_Event = TypeVar("T_Event", bound="Event")\nbound_signals = WeakKeyDictionary[Hashable, "Signal[Any]"]()\n'),
  ("            return self._bound_signals[instance]\n", "            return bound_signals[instance]\n"),
  ("            self._bound_signals[instance] = bound_signal\n", "            bound_signals[instance] = bound_signal\n"))
M("c11-key-by-class", "C11", "_event.py", "C11.R1", "cache keyed by the owner class: instances share channels",
  ("            return self._bound_signals[instance]\n", "            return self._bound_signals[owner]\n"),
  ("            self._bound_signals[instance] = bound_signal\n", "            self._bound_signals[owner] = bound_signal\n"))
M("c11-not-cached", "C11", "_event.py", "C11.R2", "a new bound signal on every access",
  ("            self._bound_signals[instance] = bound_signal\n", ""))
M("c11-store-other-key", "C11", "_event.py", "C11.R2", "stored under a different key than fetched",
  ("            self._bound_signals[instance] = bound_signal\n", "            self._bound_signals[type(instance)] = bound_signal\n"))
M("c11-topic-lost", "C11", "_event.py", "C11.R3", "bound signal does not carry the declaration's topic",
  ("            bound_signal._topic = self._topic\n", '            bound_signal._topic = "signal"\n'))
M("c11-event-class-lost", "C11", "_event.py", "C11.R3", "bound signal built with the base Event class",
  ("            bound_signal = Signal(self.event_class)\n", "            bound_signal = Signal(Event)\n"))
M("c11-no-class-check", "C11", "_event.py", "C11.R5", "dispatch accepts events of any class",
  ('''        if not isinstance(event, self.event_class):
            raise TypeError(
                f"Event type mismatch: event ({qualified_name(event)}) is not a "
                f"subclass of {qualified_name(self.event_class)}"
            )
''', ""))
M("c11-class-check-after-send", "C11", "_event.py", "C11.R5", "event class checked after delivery",
  ('''        if not isinstance(event, self.event_class):
            raise TypeError(
                f"Event type mismatch: event ({qualified_name(event)}) is not a "
                f"subclass of {qualified_name(self.event_class)}"
            )

        event.source = self._instance()''', "        event.source = self._instance()"),
  ('''                    SignalQueueFull,
                    stacklevel=2,
                )
''', '''                    SignalQueueFull,
                    stacklevel=2,
                )

        if not isinstance(event, self.event_class):
            raise TypeError("Event type mismatch")
'''))
M("c11-strong-owner-ref", "C11", "_event.py", "C11.R6", "bound signal keeps a strong reference to its owner",
  ("            bound_signal._instance = weakref.ref(instance)\n", "            bound_signal._instance = weakref.ref(instance)\n            bound_signal._owner = instance\n"))
M("c11-strong-table", "C11", "_event.py", "C11.R6", "bound-signal table is a plain dict (strong keys)",
  ("init=False, default_factory=WeakKeyDictionary, repr=False, compare=False", "init=False, default_factory=dict, repr=False, compare=False"))
M("c11-unbound-check-dropped", "C11", "_event.py", "C11.R4", "dispatch on the class-level declaration is not rejected",
  ('''        self._check_is_bound_signal()
        if not isinstance(event, self.event_class):''', "        if not isinstance(event, self.event_class):"))
M("c11-shared-subscriber-list", "C11", "_event.py", "C11.R7", "all bound signals share one subscriber list",
  ("            bound_signal._send_streams = []\n", "            bound_signal._send_streams = _ALL_STREAMS\n"),
  ('T_Event = TypeVar("T_Event", bound="Event")\n', 'T_Event = TypeVar("T_Event", bound="Event")\n_ALL_STREAMS: list = []\n'))
T("c11-twin-nested-by-topic", "C11", "_event.py", "module-level weak table nested by topic",
  ('T_Event = TypeVar("T_Event", bound="Event")\n', 'T_Event = TypeVar("T_Event", bound="Event")\nbound_signals = WeakKeyDictionary[Hashable, "dict[str, Signal[Any]]"]()\n'),
  ("            return self._bound_signals[instance]\n", "            return bound_signals[instance][self._topic]\n"),
  ("            self._bound_signals[instance] = bound_signal\n", "            bound_signals.setdefault(instance, {})[self._topic] = bound_signal\n"))
T("c11-twin-rename", "C11", "_event.py", "rename the local bound signal variable",
  ("bound_signal", "channel"), count=None)

# =============================================================================== C17
M("c17-alias-original", "C17", "_utils.py", ["C17.R1", "C17.R2"], "result aliases the original argument",
  ("    copied = dict(original) if original else {}\n", "    copied = original if original else {}\n"))
M("c17-update-nested-in-place", "C17", "_utils.py", "C17.R1", "nested dictionaries of the original are updated in place",
  ("                copied[key] = merge_config(orig_value, value)\n", "                orig_value.update(value)\n                copied[key] = orig_value\n"))
M("c17-left-bias", "C17", "_utils.py", ["C17.R2", "C17.R3"], "existing keys win (left bias)",
  ("            else:\n                copied[key] = value\n", "            else:\n                copied.setdefault(key, value)\n"))
M("c17-or-guard", "C17", "_utils.py", "C17.R3", "recursion when either side is a dict",
  ("if isinstance(orig_value, dict) and isinstance(value, dict):", "if isinstance(orig_value, dict) or isinstance(value, dict):"))
M("c17-one-sided-guard", "C17", "_utils.py", "C17.R3", "recursion when only the original value is a dict",
  ("if isinstance(orig_value, dict) and isinstance(value, dict):", "if isinstance(orig_value, dict):"))
M("c17-swapped-recursion", "C17", "_utils.py", "C17.R3", "nested merge with swapped arguments (nested left bias)",
  ("merge_config(orig_value, value)", "merge_config(value, orig_value)"))
M("c17-dotted-keys", "C17", "_utils.py", "C17.R5", "dotted keys are split again",
  ("            orig_value = copied.get(key)\n", '            key = key.split(".")[0]\n            orig_value = copied.get(key)\n'))
M("c17-none-overrides-crash", "C17", "_utils.py", "C17.R4", "overrides=None is dereferenced",
  ("    if overrides:\n", "    if overrides is not False:\n"))
M("c17-none-original-crash", "C17", "_utils.py", "C17.R4", "original=None is dereferenced",
  ("    copied = dict(original) if original else {}\n", "    copied = dict(original)\n"))
M("c17-skip-none-values", "C17", "_utils.py", "C17.R2", "override keys whose value is None are dropped",
  ("            else:\n                copied[key] = value\n", "            elif value is not None:\n                copied[key] = value\n"))
T("c17-twin-or-empty", "C17", "_utils.py", "dict(original or {}) / (overrides or {}).items()",
  ("    copied = dict(original) if original else {}\n    if overrides:\n        for key, value in overrides.items():", "    copied = dict(original or {})\n    if overrides:\n        for key, value in overrides.items():"))
T("c17-twin-rename", "C17", "_utils.py", "rename locals",
  ("copied", "merged"), count=None)
T("c17-twin-continue-style", "C17", "_utils.py", "early-continue instead of else",
  ('''            if isinstance(orig_value, dict) and isinstance(value, dict):
                copied[key] = merge_config(orig_value, value)
            else:
                copied[key] = value
''', '''            if isinstance(orig_value, dict) and isinstance(value, dict):
                copied[key] = merge_config(orig_value, value)
                continue

            copied[key] = value
'''))
