"""
Property C03 checks, focused on teardown callbacks of added resources and on whole
histories of adds, factory registrations and lookups compared against a small model.

Must pass both on the unchanged source and with refactor3.diff applied.
"""

from __future__ import annotations

import random
from typing import Any

import pytest

from asphalt.core import (
    Context,
    ResourceConflict,
    add_resource,
    add_resource_factory,
    get_resource,
    get_resource_nowait,
)

pytestmark = pytest.mark.anyio

TYPES = (int, str, float, bytes)
NAMES = ("default", "a", "b")
BAD_NAMES = ("", "a b", "a.b")
# Number of factory calls so far (shared so that factories inherited from a parent
# context's history are counted in the child's history too)
GENERATED = [0]


@pytest.fixture
def anyio_backend() -> str:
    return "asyncio"


class Model:
    """Reference model of one context."""

    def __init__(self, parent: Model | None = None) -> None:
        self.resources: dict[tuple[type, str], tuple[Any, bool]] = {}
        self.factories: dict[tuple[type, str], tuple[Any, tuple[type, ...]]] = {}
        self.events: list[tuple[tuple[type, ...], str, bool]] = []
        self.teardowns: list[str] = []
        if parent is not None:
            self.resources = {
                key: val for key, val in parent.resources.items() if not val[1]
            }
            self.factories = dict(parent.factories)


async def run_history(seed: int, ctx: Context, model: Model, steps: int) -> list[str]:
    """
    Run a pseudo-random history against ``ctx`` and check every step against ``model``.

    Returns the list that teardown callbacks of the context append to.
    """
    rng = random.Random(seed)
    torn_down: list[str] = []

    async with ctx.resource_added.stream_events() as stream:
        for step in range(steps):
            op = rng.choice(["add", "add", "factory", "lookup", "lookup"])
            name = rng.choice(NAMES + NAMES + BAD_NAMES[:1]) if op != "lookup" else (
                rng.choice(NAMES)
            )
            if op != "lookup" and rng.random() < 0.15:
                name = rng.choice(BAD_NAMES)

            types = tuple(rng.sample(TYPES, rng.randint(1, 3)))
            if op == "add":
                value: Any = None if rng.random() < 0.1 else f"static{step}"
                teardown_kind = rng.choice(["none", "good", "good", "bad"])
                token = f"td{step}"
                kwargs: dict[str, Any] = {}
                if teardown_kind == "good":
                    kwargs["teardown_callback"] = (
                        lambda token=token: torn_down.append(token)
                    )
                elif teardown_kind == "bad":
                    kwargs["teardown_callback"] = token  # not callable

                should_fail = (
                    value is None
                    or name in BAD_NAMES
                    or any((t, name) in model.resources for t in types)
                    or teardown_kind == "bad"
                )
                conflict_only = (
                    value is not None
                    and name not in BAD_NAMES
                    and any((t, name) in model.resources for t in types)
                )
                try:
                    if rng.random() < 0.5:
                        ctx.add_resource(value, name, types, **kwargs)
                    else:
                        add_resource(value, name, list(types), **kwargs)
                except (ValueError, TypeError, ResourceConflict) as exc:
                    assert should_fail, (seed, step, exc)
                    if conflict_only:
                        assert isinstance(exc, ResourceConflict)
                else:
                    assert not should_fail, (seed, step)
                    for t in types:
                        model.resources[t, name] = (value, False)

                    model.events.append((types, name, False))
                    if teardown_kind == "good":
                        model.teardowns.append(token)
            elif op == "factory":

                def factory() -> Any:
                    GENERATED[0] += 1
                    return f"generated{GENERATED[0]}"

                should_fail = name in BAD_NAMES or any(
                    (t, name) in model.factories for t in types
                )
                try:
                    if rng.random() < 0.5:
                        ctx.add_resource_factory(factory, name, types=types)
                    else:
                        add_resource_factory(factory, name, types=list(types))
                except (ValueError, ResourceConflict) as exc:
                    assert should_fail, (seed, step, exc)
                    if name not in BAD_NAMES:
                        assert isinstance(exc, ResourceConflict)
                else:
                    assert not should_fail, (seed, step)
                    for t in types:
                        model.factories[t, name] = (factory, types)

                    model.events.append((types, name, True))
            else:
                type_ = rng.choice(TYPES)
                style = rng.randrange(4)
                before = GENERATED[0]
                if style == 0:
                    found = ctx.get_resource_nowait(type_, name, optional=True)
                elif style == 1:
                    found = await ctx.get_resource(type_, name, optional=True)
                elif style == 2:
                    found = get_resource_nowait(type_, name, optional=True)
                else:
                    found = await get_resource(type_, name, optional=True)

                key = (type_, name)
                if key in model.resources:
                    assert found is model.resources[key][0], (seed, step)
                    assert GENERATED[0] == before
                elif key in model.factories:
                    assert GENERATED[0] == before + 1
                    assert found == f"generated{GENERATED[0]}"
                    factory_types = model.factories[key][1]
                    for t in factory_types:
                        model.resources.setdefault((t, name), (found, True))

                    model.events.append((factory_types, name, False))
                else:
                    assert found is None, (seed, step)
                    assert GENERATED[0] == before

            # Everything the model knows to be present is still the same object, and
            # looking it up generates nothing and dispatches nothing
            before = GENERATED[0]
            for (t, n), (expected, _) in model.resources.items():
                assert ctx.get_resource_nowait(t, n) is expected, (seed, step, t, n)
                assert await ctx.get_resource(t, n) is expected, (seed, step, t, n)

            for t in TYPES:
                for n in NAMES:
                    if (t, n) not in model.resources and (t, n) not in model.factories:
                        assert ctx.get_resource_nowait(t, n, optional=True) is None

            assert GENERATED[0] == before

        # Compare the dispatched events with the model's
        sentinel = f"zz_sentinel_{seed}"
        ctx.add_resource(object(), sentinel, [Model])
        seen = []
        async for event in stream:
            if event.resource_name == sentinel:
                break

            seen.append((event.resource_types, event.resource_name, event.is_factory))

        assert seen == model.events, seed

    return torn_down


@pytest.mark.parametrize("seed", range(40))
async def test_history_in_single_context(seed: int) -> None:
    model = Model()
    async with Context() as ctx:
        torn_down = await run_history(seed, ctx, model, 30)
        assert torn_down == []

    assert torn_down == list(reversed(model.teardowns))


@pytest.mark.parametrize("seed", range(100, 125))
async def test_history_in_parent_and_child(seed: int) -> None:
    parent_model = Model()
    async with Context() as parent:
        parent_torn_down = await run_history(seed, parent, parent_model, 15)
        child_model = Model(parent_model)
        async with Context() as child:
            child_torn_down = await run_history(seed + 1000, child, child_model, 25)
            assert child_torn_down == []

        assert child_torn_down == list(reversed(child_model.teardowns))
        assert parent_torn_down == []

        # The child's history did not disturb the parent
        for (t, n), (expected, _) in parent_model.resources.items():
            assert parent.get_resource_nowait(t, n) is expected

        for t in TYPES:
            for n in NAMES:
                key = (t, n)
                if key not in parent_model.resources:
                    if key not in parent_model.factories:
                        assert parent.get_resource_nowait(t, n, optional=True) is None

    assert parent_torn_down == list(reversed(parent_model.teardowns))


async def test_teardown_of_failed_adds_is_never_scheduled() -> None:
    calls: list[str] = []
    async with Context() as ctx:
        ctx.add_resource(1, "one", teardown_callback=lambda: calls.append("one"))
        with pytest.raises(ResourceConflict):
            ctx.add_resource(
                2, "one", [str, int], teardown_callback=lambda: calls.append("dup")
            )

        with pytest.raises(ValueError):
            ctx.add_resource(3, "", teardown_callback=lambda: calls.append("noname"))

        with pytest.raises(ValueError):
            ctx.add_resource(
                None, "none", [int], teardown_callback=lambda: calls.append("none")
            )

        with pytest.raises(TypeError):
            ctx.add_resource(
                4,
                "badtype",
                [int, "x"],  # type: ignore[list-item]
                teardown_callback=lambda: calls.append("badtype"),
            )

        with pytest.raises(TypeError):
            ctx.add_resource(5, "badcb", teardown_callback=object())  # type: ignore

        ctx.add_resource(6, "two", teardown_callback=lambda: calls.append("two"))
        for name in ("none", "badtype", "badcb"):
            assert ctx.get_resource_nowait(int, name, optional=True) is None

        assert ctx.get_resource_nowait(str, "one", optional=True) is None
        assert calls == []

    assert calls == ["two", "one"]


async def test_teardown_of_failed_adds_not_scheduled_when_context_fails() -> None:
    calls: list[str] = []
    with pytest.raises(RuntimeError, match="boom"):
        async with Context() as ctx:
            ctx.add_resource(1, teardown_callback=lambda: calls.append("ok"))
            with pytest.raises(ResourceConflict):
                ctx.add_resource(2, teardown_callback=lambda: calls.append("dup"))

            assert ctx.get_resource_nowait(int) == 1
            raise RuntimeError("boom")

    assert calls == ["ok"]
