"""
Behaviour checks for refactoring 2 (inlined bound check, hoisted message templates
and default queue size, guard clause in the event filter). Only the public API is
used.
"""

from __future__ import annotations

import inspect
import warnings
from typing import Any

import pytest
from anyio import create_task_group, fail_after, move_on_after
from anyio.lowlevel import checkpoint

from asphalt.core import (
    Event,
    Signal,
    SignalQueueFull,
    UnboundSignal,
    stream_events,
    wait_event,
)

pytestmark = pytest.mark.anyio()

UNBOUND_MESSAGE = "attempted to use a signal that is not bound to an instance"


class ValueEvent(Event):
    def __init__(self, value: Any = None) -> None:
        self.value = value


class Source:
    first = Signal(ValueEvent)
    second = Signal(ValueEvent)


def dispatch_quietly(signal: Signal[ValueEvent], count: int) -> None:
    """Dispatch ``count`` events, failing if any warning is emitted."""
    with warnings.catch_warnings():
        warnings.simplefilter("error")
        for i in range(count):
            signal.dispatch(ValueEvent(i))


def test_default_queue_size_in_signatures() -> None:
    assert inspect.signature(stream_events).parameters["max_queue_size"].default == 50
    method_params = inspect.signature(Signal.stream_events).parameters
    assert method_params["max_queue_size"].default == 50
    assert method_params["max_queue_size"].kind is inspect.Parameter.KEYWORD_ONLY
    assert method_params["filter"].default is None


def test_unbound_dispatch() -> None:
    with pytest.raises(UnboundSignal) as exc_info:
        Source.first.dispatch(ValueEvent())

    assert str(exc_info.value) == UNBOUND_MESSAGE
    # Unbound takes precedence over a wrong event type
    with pytest.raises(UnboundSignal):
        Source.first.dispatch(object())  # type: ignore[arg-type]


def test_type_mismatch_message() -> None:
    source = Source()
    with pytest.raises(TypeError) as exc_info:
        source.first.dispatch(Event())  # type: ignore[arg-type]

    assert str(exc_info.value) == (
        "Event type mismatch: event (asphalt.core.Event) is not a subclass of "
        f"{__name__}.ValueEvent"
    )
    with pytest.raises(TypeError) as exc_info:
        source.first.dispatch(None)  # type: ignore[arg-type]

    assert str(exc_info.value) == (
        "Event type mismatch: event (NoneType) is not a subclass of "
        f"{__name__}.ValueEvent"
    )


async def test_unbound_stream_and_wait() -> None:
    with pytest.raises(UnboundSignal) as exc_info:
        async with stream_events([Source.first]):
            pytest.fail("the block must not be entered")

    assert str(exc_info.value) == UNBOUND_MESSAGE
    with pytest.raises(UnboundSignal):
        async with Source.first.stream_events():
            pytest.fail("the block must not be entered")

    with pytest.raises(UnboundSignal):
        await wait_event([Source.first])

    with pytest.raises(UnboundSignal):
        await Source.first.wait_event()


async def test_unbound_signal_rolls_back_earlier_subscriptions() -> None:
    source = Source()
    with pytest.raises(UnboundSignal):
        async with stream_events(
            [source.first, source.second, Source.first], max_queue_size=1
        ):
            pytest.fail("the block must not be entered")

    # If the subscriptions had stayed, the second dispatch would warn about a full
    # queue
    dispatch_quietly(source.first, 3)
    dispatch_quietly(source.second, 3)


async def test_default_queue_size_overflow_message() -> None:
    source = Source()
    async with source.first.stream_events() as stream:
        dispatch_quietly(source.first, 50)
        with pytest.warns(SignalQueueFull) as records:
            source.first.dispatch(ValueEvent(50))

        assert [str(r.message) for r in records] == [
            "Queue full (50) when trying to send dispatched event to subscriber"
        ]
        assert records[0].filename == __file__
        with fail_after(1):
            values = [(await stream.__anext__()).value for _ in range(50)]

    assert values == list(range(50))


async def test_custom_queue_size_overflow_message() -> None:
    source = Source()
    async with stream_events([source.first, source.second], max_queue_size=2):
        dispatch_quietly(source.first, 1)
        dispatch_quietly(source.second, 1)
        with pytest.warns(SignalQueueFull, match=r"^Queue full \(2\) when trying"):
            source.second.dispatch(ValueEvent())


async def test_same_signal_subscribed_twice_gets_events_twice() -> None:
    source = Source()
    async with stream_events([source.first, source.first]) as stream:
        source.first.dispatch(ValueEvent("x"))
        with fail_after(1):
            one = await stream.__anext__()
            two = await stream.__anext__()

    assert one is two
    dispatch_quietly(source.first, 60)


@pytest.mark.parametrize(
    "filter, expected",
    [
        pytest.param(None, [0, 1, 2, 3, "", "a", None], id="nofilter"),
        pytest.param(lambda e: e.value, [1, 2, 3, "a"], id="truthiness"),
        pytest.param(lambda e: [e.value], [0, 1, 2, 3, "", "a", None], id="nonbool"),
        pytest.param(lambda e: None, [], id="reject-all"),
        pytest.param(lambda e: e.value == 2, [2], id="single"),
    ],
)
async def test_filter_semantics(filter: Any, expected: list[Any]) -> None:
    source = Source()
    received: list[Any] = []
    async with source.first.stream_events(filter) as stream:
        for value in [0, 1, 2, 3, "", "a", None]:
            source.first.dispatch(ValueEvent(value))

        with move_on_after(0.05):
            async for event in stream:
                received.append(event.value)

    assert received == expected


async def test_filter_called_once_per_event_in_order() -> None:
    source = Source()
    seen: list[int] = []

    def filter(event: ValueEvent) -> bool:
        seen.append(event.value)
        return event.value % 2 == 1

    async with source.first.stream_events(filter) as stream:
        dispatch_quietly(source.first, 6)
        assert seen == []
        with fail_after(1):
            assert (await stream.__anext__()).value == 1
            assert seen == [0, 1]
            assert (await stream.__anext__()).value == 3
            assert seen == [0, 1, 2, 3]


async def test_filter_exception_propagates_and_ends_stream() -> None:
    source = Source()

    def filter(event: ValueEvent) -> bool:
        if event.value == 1:
            raise RuntimeError("bad filter")

        return True

    async with source.first.stream_events(filter) as stream:
        dispatch_quietly(source.first, 3)
        with fail_after(1):
            assert (await stream.__anext__()).value == 0
            with pytest.raises(RuntimeError, match="^bad filter$"):
                await stream.__anext__()

            with pytest.raises(StopAsyncIteration):
                await stream.__anext__()

    dispatch_quietly(source.first, 60)


async def test_wait_event_filter_exception_unsubscribes() -> None:
    source = Source()

    def filter(event: ValueEvent) -> bool:
        raise LookupError("nope")

    caught: list[BaseException] = []

    async def waiter() -> None:
        try:
            await source.first.wait_event(filter)
        except LookupError as exc:
            caught.append(exc)

    async with create_task_group() as tg:
        tg.start_soon(waiter)
        await checkpoint()
        await checkpoint()
        source.first.dispatch(ValueEvent())
        with fail_after(1):
            while not caught:
                await checkpoint()

    assert str(caught[0]) == "nope"
    dispatch_quietly(source.first, 60)


async def test_wait_event_cancellation_unsubscribes() -> None:
    source = Source()
    with move_on_after(0.05) as scope:
        await wait_event([source.first, source.second])

    assert scope.cancelled_caught
    dispatch_quietly(source.first, 60)
    dispatch_quietly(source.second, 60)


async def test_stream_block_exception_unsubscribes_and_propagates() -> None:
    source = Source()
    with pytest.raises(ZeroDivisionError):
        async with source.first.stream_events(max_queue_size=1) as stream:
            source.first.dispatch(ValueEvent(1))
            assert (await stream.__anext__()).value == 1
            1 / 0

    dispatch_quietly(source.first, 5)
    with pytest.raises(StopAsyncIteration):
        await stream.__anext__()
