"""
Behaviour check for refactoring 1 (extraction of the event-matching predicate used by
ComponentContext.get_resource() while waiting for a resource).

Exercises, through the public API only: a waiting component is released only by a
publication with the same name AND the requested type, whatever else is published
before it; multi-type resources, factories, alias default-name remapping, bursts of
unrelated publications.
"""

from __future__ import annotations

import logging

import pytest
from anyio import Event, fail_after, wait_all_tasks_blocked
from pytest import LogCaptureFixture

from asphalt.core import (
    Component,
    Context,
    add_resource,
    add_resource_factory,
    get_resource,
    start_component,
)

pytestmark = pytest.mark.anyio()


async def test_only_matching_type_and_name_release_waiter() -> None:
    """Near misses are published one by one; the waiter must stay blocked."""
    trace: list[str] = []
    marker = object()

    class Special:
        pass

    special = Special()

    class Parent(Component):
        def __init__(self) -> None:
            self.add_component("waiter", Waiter)
            self.add_component("publisher", Publisher)

    class Waiter(Component):
        async def start(self) -> None:
            trace.append("waiting")
            with fail_after(3):
                res = await get_resource(Special, "wanted")

            trace.append("released")
            assert res is special

    class Publisher(Component):
        async def start(self) -> None:
            await wait_all_tasks_blocked()
            assert trace == ["waiting"]

            # same name, other type
            add_resource("a string", "wanted")
            await wait_all_tasks_blocked()
            assert trace == ["waiting"]

            # same type, other name
            add_resource(Special(), "unwanted")
            await wait_all_tasks_blocked()
            assert trace == ["waiting"]

            # same type, default name
            add_resource(Special())
            await wait_all_tasks_blocked()
            assert trace == ["waiting"]

            # factory: same name, other type; same type, other name
            add_resource_factory(lambda: 1, "wanted", types=[int])
            add_resource_factory(lambda: Special(), "other", types=[Special])
            await wait_all_tasks_blocked()
            assert trace == ["waiting"]

            # multi-type resource not including the wanted type
            add_resource(marker, "wanted", types=[object, float])
            await wait_all_tasks_blocked()
            assert trace == ["waiting"]

            # finally, the match
            add_resource(special, "wanted")
            trace.append("published")
            await wait_all_tasks_blocked()
            assert trace == ["waiting", "published", "released"]

    async with Context():
        await start_component(Parent, timeout=5)

    assert trace == ["waiting", "published", "released"]


async def test_multi_type_resource_releases_every_type() -> None:
    got: dict[str, object] = {}
    value = 7

    class Parent(Component):
        def __init__(self) -> None:
            self.add_component("w_int", WaitInt)
            self.add_component("w_float", WaitFloat)
            self.add_component("w_str", WaitStr)
            self.add_component("publisher", Publisher)

    class WaitInt(Component):
        async def start(self) -> None:
            with fail_after(3):
                got["int"] = await get_resource(int, "num")

    class WaitFloat(Component):
        async def start(self) -> None:
            with fail_after(3):
                got["float"] = await get_resource(float, "num")

    class WaitStr(Component):
        async def start(self) -> None:
            with fail_after(3):
                got["str"] = await get_resource(str, "num")

    class Publisher(Component):
        async def start(self) -> None:
            await wait_all_tasks_blocked()
            add_resource(value, "num", types=[int, float])
            await wait_all_tasks_blocked()
            # The str waiter must not have been released (or failed) by that
            assert got == {"int": 7, "float": 7}
            add_resource("seven", "num")

    async with Context():
        await start_component(Parent, timeout=5)

    assert got == {"int": 7, "float": 7, "str": "seven"}


async def test_burst_of_unrelated_publications_then_match() -> None:
    """More unrelated events than the default signal queue size (50)."""
    result: list[str] = []

    class Parent(Component):
        def __init__(self) -> None:
            self.add_component("waiter", Waiter)
            self.add_component("publisher", Publisher)

    class Waiter(Component):
        async def start(self) -> None:
            with fail_after(3):
                result.append(await get_resource(str, "needle"))

    class Publisher(Component):
        async def start(self) -> None:
            await wait_all_tasks_blocked()
            for i in range(200):
                add_resource(i, f"hay{i}")
                add_resource(f"hay{i}", f"hay{i}")

            add_resource("found", "needle")
            for i in range(200, 300):
                add_resource(i, f"hay{i}")

    async with Context():
        await start_component(Parent, timeout=5)

    assert result == ["found"]


async def test_factory_publication_and_alias_default_name(
    caplog: LogCaptureFixture,
) -> None:
    """
    A component added under the alias "publisher/alt" publishes its "default"
    resources under the name "alt"; waiters for (type, "alt") are released, a waiter for
    (type, "default") is not.
    """
    results: dict[str, object] = {}
    calls: list[str] = []
    default_waiter_done = Event()
    checked = Event()

    def factory() -> float:
        calls.append("factory")
        return 2.5

    class Parent(Component):
        def __init__(self) -> None:
            self.add_component("w_alt", WaitAlt)
            self.add_component("w_factory", WaitFactory)
            self.add_component("w_default", WaitDefault)
            self.add_component("publisher/alt", Publisher)
            self.add_component("late", LatePublisher)

    class WaitAlt(Component):
        async def start(self) -> None:
            with fail_after(3):
                results["alt"] = await get_resource(str, "alt")

    class WaitFactory(Component):
        async def start(self) -> None:
            with fail_after(3):
                results["factory"] = await get_resource(float, "alt")

    class WaitDefault(Component):
        async def start(self) -> None:
            with fail_after(3):
                results["default"] = await get_resource(str)

            default_waiter_done.set()

    class Publisher(Component):
        async def start(self) -> None:
            await wait_all_tasks_blocked()
            add_resource("remapped")
            add_resource_factory(factory)
            await wait_all_tasks_blocked()
            assert results == {"alt": "remapped", "factory": 2.5}
            assert not default_waiter_done.is_set()
            checked.set()

    class LatePublisher(Component):
        async def start(self) -> None:
            await checked.wait()
            add_resource("really default")

    caplog.set_level(logging.DEBUG, "asphalt.core")
    async with Context():
        await start_component(Parent, timeout=5)

    assert results == {
        "alt": "remapped",
        "factory": 2.5,
        "default": "really default",
    }
    assert calls == ["factory"]
    assert (
        "Component 'w_alt' is waiting for another component to provide a resource "
        "(type=str, name='alt')"
    ) in caplog.messages
    assert (
        "Component 'w_alt' got the resource it was waiting for (type=str, name='alt')"
    ) in caplog.messages
