"""
Behaviour checks for refactoring 3 (idiom replacements in Context.__init__ and in the
factory lookup of get_resource / get_resource_nowait).

Focus: what a new context inherits from its parent (regular resources and factories,
but never generated resources; later additions to the parent are not seen), and that
the factory table lookup is unchanged.
"""

from __future__ import annotations

from itertools import count

import pytest
from anyio import create_task_group
from anyio.lowlevel import checkpoint

from asphalt.core import (
    AsyncResourceError,
    Context,
    ResourceConflict,
    ResourceNotFound,
    current_context,
    get_resource,
    get_resource_nowait,
    inject,
    resource,
)

pytestmark = pytest.mark.anyio()


@pytest.fixture
def anyio_backend() -> str:
    return "asyncio"


class Conn:
    def __init__(self, serial: int) -> None:
        self.serial = serial


class Session:
    def __init__(self, serial: int) -> None:
        self.serial = serial


@pytest.mark.parametrize("api", ["nowait", "async"])
async def test_mixed_inheritance(api: str) -> None:
    conn_counter = count(1)
    session_counter = count(1)

    async def lookup(ctx: Context, type_: type, name: str = "default"):
        if api == "nowait":
            return ctx.get_resource_nowait(type_, name)

        return await ctx.get_resource(type_, name)

    async with Context() as root:
        static_conn = Conn(0)
        root.add_resource(static_conn, "static")
        root.add_resource_factory(lambda: Conn(next(conn_counter)), types=[Conn])
        root_conn = await lookup(root, Conn)
        assert root_conn.serial == 1
        assert root.get_resources(Conn) == {"static": static_conn, "default": root_conn}

        async with Context() as child:
            # Regular resource inherited, generated one is not
            assert child.get_resources(Conn) == {"static": static_conn}
            assert await lookup(child, Conn, "static") is static_conn

            # A factory added to the child is not visible in the (existing) parent
            child.add_resource_factory(
                lambda: Session(next(session_counter)), types=[Session]
            )
            with pytest.raises(ResourceNotFound):
                await lookup(root, Session)

            # A factory added to the parent afterwards is not seen by the child
            root.add_resource_factory(lambda: Conn(1000), "late", types=[Conn])
            with pytest.raises(ResourceNotFound):
                await lookup(child, Conn, "late")

            assert (await lookup(root, Conn, "late")).serial == 1000

            # The child's own factory table is a copy: re-adding conflicts only there
            with pytest.raises(ResourceConflict):
                child.add_resource_factory(lambda: Conn(5), types=[Conn])

            child.add_resource_factory(lambda: Conn(2000), "late", types=[Conn])
            assert (await lookup(child, Conn, "late")).serial == 2000
            assert (await lookup(root, Conn, "late")).serial == 1000

            child_conn = await lookup(child, Conn)
            assert child_conn.serial == 2
            child_session = await lookup(child, Session)
            assert child_session.serial == 1

            async with Context() as grandchild:
                assert grandchild.get_resources(Conn) == {"static": static_conn}
                assert grandchild.get_resources(Session) == {}
                gc_session = await lookup(grandchild, Session)
                assert gc_session.serial == 2
                gc_conn = await lookup(grandchild, Conn)
                assert gc_conn.serial == 3
                assert (await lookup(grandchild, Conn, "late")).serial == 2000
                assert await lookup(grandchild, Conn, "late") is not await lookup(
                    child, Conn, "late"
                )

            assert await lookup(child, Conn) is child_conn
            assert await lookup(child, Session) is child_session

        assert await lookup(root, Conn) is root_conn
        assert root.get_resources(Session) == {}


async def test_sibling_contexts_in_concurrent_tasks() -> None:
    counter = count(1)
    seen: dict[int, list[Conn]] = {}

    async def handler(index: int) -> None:
        async with Context() as ctx:
            assert ctx.get_resources(Conn) == {}
            seen[index] = []
            for _ in range(3):
                if index % 2:
                    seen[index].append(await get_resource(Conn))
                else:
                    seen[index].append(get_resource_nowait(Conn))

                await checkpoint()

            assert current_context() is ctx

    async with Context() as root:
        root.add_resource_factory(lambda: Conn(next(counter)), types=[Conn])
        root_conn = root.get_resource_nowait(Conn)
        async with create_task_group() as tg:
            for i in range(5):
                tg.start_soon(handler, i)

        assert root.get_resource_nowait(Conn) is root_conn

    assert sorted(seen) == [0, 1, 2, 3, 4]
    firsts = [conns[0] for conns in seen.values()]
    for conns in seen.values():
        assert conns[1] is conns[0] and conns[2] is conns[0]

    # One generated resource per context, each of them distinct
    assert sorted(c.serial for c in firsts) == [2, 3, 4, 5, 6]
    assert root_conn.serial == 1


async def test_async_factory_inheritance_and_sync_api_error() -> None:
    counter = count(1)

    async def factory() -> Session:
        await checkpoint()
        return Session(next(counter))

    async with Context() as root:
        root.add_resource_factory(factory)
        async with Context() as child:
            with pytest.raises(AsyncResourceError):
                child.get_resource_nowait(Session)

            with pytest.raises(AsyncResourceError):
                child.get_resource_nowait(Session, optional=True)

            assert child.get_resources(Session) == {}
            assert root.get_resources(Session) == {}
            child_session = await child.get_resource(Session)
            assert child_session.serial == 1
            assert child.get_resource_nowait(Session) is child_session
            assert root.get_resources(Session) == {}
            with pytest.raises(AsyncResourceError):
                root.get_resource_nowait(Session)

            async with Context() as grandchild:
                with pytest.raises(AsyncResourceError):
                    grandchild.get_resource_nowait(Session)

                gc_session = await grandchild.get_resource(Session)
                assert gc_session.serial == 2

            assert await child.get_resource(Session) is child_session


async def test_inject_uses_innermost_context() -> None:
    counter = count(1)

    @inject
    def sync_func(conn: Conn = resource()) -> Conn:
        return conn

    @inject
    async def async_func(conn: Conn = resource()) -> Conn:
        return conn

    async with Context() as root:
        root.add_resource_factory(lambda: Conn(next(counter)), types=[Conn])
        async with Context() as child1:
            c1 = sync_func()
            assert c1.serial == 1
            assert await async_func() is c1

        async with Context() as child2:
            c2 = await async_func()
            assert c2.serial == 2
            assert sync_func() is c2
            assert child2.get_resources(Conn) == {"default": c2}

        assert root.get_resources(Conn) == {}
        c_root = await async_func()
        assert c_root.serial == 3
        assert sync_func() is c_root
        assert child1.get_resources(Conn) == {"default": c1}
