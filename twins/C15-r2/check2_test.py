"""
Behaviour check for refactoring 2 (Context._run_teardown_callbacks loop).

Exercises property C15 through the public API only, concentrating on the teardown
callback machinery of the root context created by run_application(): reverse ordering,
exactly-once execution, callbacks registered during teardown, failing callbacks, the
exception passed to ``pass_exception=True`` callbacks - for several kinds of endings.
"""

from __future__ import annotations

import signal
from functools import partial
from typing import Any

import pytest
from anyio import sleep, wait_all_tasks_blocked

from asphalt.core import (
    CLIApplicationComponent,
    Component,
    add_teardown_callback,
    run_application,
    start_service_task,
)

BACKENDS = ["asyncio", "trio"]

registered: list[str] = []
called: list[str] = []  # appended to when a callback is entered
torn_down: list[str] = []  # appended to when a callback has done its work
passed: dict[str, Any] = {}


@pytest.fixture(autouse=True)
def reset_records() -> None:
    registered.clear()
    called.clear()
    torn_down.clear()
    passed.clear()


def register(label: str, *, fail: BaseException | None = None) -> None:
    """Register four differently shaped callbacks under ``label``."""

    def sync_callback() -> str:
        called.append(f"{label}.sync")
        torn_down.append(f"{label}.sync")
        if fail is not None:
            raise fail

        return "ignored non-awaitable return value"

    async def async_callback() -> None:
        # Must be awaited to completion before any further callback is called
        called.append(f"{label}.async")
        await sleep(0.01)
        torn_down.append(f"{label}.async")

    def exc_callback(exc: BaseException | None) -> None:
        called.append(f"{label}.exc")
        torn_down.append(f"{label}.exc")
        passed[f"{label}.exc"] = exc

    async def async_exc_callback(tag: str, exc: BaseException | None) -> None:
        called.append(f"{label}.{tag}")
        passed[f"{label}.{tag}"] = exc
        await sleep(0)
        torn_down.append(f"{label}.{tag}")

    add_teardown_callback(sync_callback)
    registered.append(f"{label}.sync")
    add_teardown_callback(async_callback, False)
    registered.append(f"{label}.async")
    add_teardown_callback(exc_callback, pass_exception=True)
    registered.append(f"{label}.exc")
    # A truthy non-bool flag and a non-function callable
    add_teardown_callback(partial(async_exc_callback, "aexc"), 1)  # type: ignore[arg-type]
    registered.append(f"{label}.aexc")


def assert_reverse_exactly_once(extra_after: dict[str, list[str]] | None = None) -> None:
    expected: list[str] = []
    for name in reversed(registered):
        expected.append(name)
        expected.extend((extra_after or {}).get(name, []))

    assert torn_down == expected
    assert len(set(torn_down)) == len(torn_down)
    if not extra_after:
        assert called == torn_down


class Leaf(Component):
    def __init__(self, label: str, fail: BaseException | None = None) -> None:
        self.label = label
        self.fail = fail

    async def start(self) -> None:
        register(self.label, fail=self.fail)


class Cli(CLIApplicationComponent):
    def __init__(
        self,
        result: Any = None,
        raises: BaseException | None = None,
        fail_one: BaseException | None = None,
        fail_two: BaseException | None = None,
    ) -> None:
        super().__init__()
        self.result = result
        self.raises = raises
        self.add_component("one", Leaf, label="one", fail=fail_one)
        self.add_component("two", Leaf, label="two", fail=fail_two)

    async def start(self) -> None:
        register("root")

    async def run(self) -> Any:
        assert torn_down == []
        if self.raises is not None:
            raise self.raises

        return self.result


def outcome(component: type[Component], config: dict[str, Any], backend: str) -> Any:
    try:
        run_application(component, config, backend=backend, logging=None)
    except SystemExit as exc:
        return "exit", exc.code
    except BaseException as exc:
        return "raise", exc

    return "return", None


TEARDOWN_MESSAGE = "Exceptions were raised during context teardown"


def find_teardown_groups(exc: BaseException) -> list[BaseExceptionGroup[Any]]:
    """Find the exception group(s) raised by the teardown of a context."""
    if not isinstance(exc, BaseExceptionGroup):
        return []

    if exc.message == TEARDOWN_MESSAGE:
        return [exc]

    return [grp for sub in exc.exceptions for grp in find_teardown_groups(sub)]


@pytest.mark.parametrize("backend", BACKENDS)
@pytest.mark.parametrize("result, expected", [(None, ("return", None)), (3, ("exit", 3))])
def test_clean_endings(backend: str, result: Any, expected: Any) -> None:
    assert outcome(Cli, {"result": result}, backend) == expected
    assert len(registered) == 12
    assert_reverse_exactly_once()
    assert set(passed) == {
        f"{label}.{tag}" for label in ("root", "one", "two") for tag in ("exc", "aexc")
    }
    assert set(passed.values()) == {None}


@pytest.mark.parametrize("backend", BACKENDS)
def test_exception_is_passed_to_callbacks(backend: str) -> None:
    error = LookupError("crash after startup")
    kind, exc = outcome(Cli, {"raises": error}, backend)
    assert kind == "raise" and exc is error
    assert_reverse_exactly_once()
    assert len(passed) == 6
    assert all(value is error for value in passed.values())


@pytest.mark.parametrize("backend", BACKENDS)
def test_failing_callbacks_do_not_stop_the_others(backend: str) -> None:
    error1 = RuntimeError("teardown failure 1")
    error2 = ValueError("teardown failure 2")
    kind, exc = outcome(Cli, {"fail_one": error1, "fail_two": error2}, backend)
    assert kind == "raise"
    # Every callback still ran, once, in reverse order
    assert_reverse_exactly_once()
    assert set(passed.values()) == {None}
    # Both failures are reported, in the order in which they happened
    (group,) = find_teardown_groups(exc)
    order = [name for name in torn_down if name in ("one.sync", "two.sync")]
    by_name = {"one.sync": error1, "two.sync": error2}
    assert list(group.exceptions) == [by_name[name] for name in order]
    assert group.__cause__ is None


@pytest.mark.parametrize("backend", BACKENDS)
def test_single_failing_callback_with_crash(backend: str) -> None:
    crash = KeyError("crash")
    error = RuntimeError("teardown failure")
    kind, exc = outcome(Cli, {"raises": crash, "fail_two": error}, backend)
    assert kind == "raise"
    assert_reverse_exactly_once()
    assert all(value is crash for value in passed.values())
    (group,) = find_teardown_groups(exc)
    assert list(group.exceptions) == [error]
    assert group.__cause__ is crash


class Reentrant(CLIApplicationComponent):
    """Callbacks that register more callbacks while the context is being torn down."""

    async def start(self) -> None:
        def late(name: str, exc: BaseException | None) -> None:
            torn_down.append(name)
            passed[name] = exc

        def first() -> None:
            torn_down.append("first")

        def adds_two() -> None:
            torn_down.append("adds_two")
            add_teardown_callback(partial(late, "late1"), pass_exception=True)
            add_teardown_callback(adds_one_more)

        async def adds_one_more() -> None:
            await sleep(0)
            torn_down.append("adds_one_more")
            add_teardown_callback(partial(late, "late2"), pass_exception=True)

        def last() -> None:
            torn_down.append("last")
            add_teardown_callback(partial(late, "late0"), True)

        add_teardown_callback(first)
        add_teardown_callback(adds_two)
        add_teardown_callback(last)

    async def run(self) -> int:
        return 9


@pytest.mark.parametrize("backend", BACKENDS)
def test_callbacks_added_during_teardown(backend: str) -> None:
    assert outcome(Reentrant, {}, backend) == ("exit", 9)
    assert torn_down == [
        "last",
        "late0",
        "adds_two",
        "adds_one_more",
        "late2",
        "late1",
        "first",
    ]
    assert passed == {"late0": None, "late1": None, "late2": None}


class Service(Component):
    """Non-CLI application that is ended by a signal or a crashing service task."""

    def __init__(self, how: str) -> None:
        self.how = how
        self.add_component("one", Leaf, label="one")
        self.add_component("two", Leaf, label="two")

    async def terminator(self) -> None:
        await wait_all_tasks_blocked()
        assert torn_down == []
        if self.how == "sigterm":
            signal.raise_signal(signal.SIGTERM)
        elif self.how == "sigint":
            signal.raise_signal(signal.SIGINT)
        else:
            raise OSError("service task crashed")

    async def start(self) -> None:
        register("root")
        await start_service_task(self.terminator, "terminator")
        register("root-late")


@pytest.mark.parametrize("backend", BACKENDS)
@pytest.mark.parametrize("how", ["sigterm", "sigint"])
def test_signal_after_startup(backend: str, how: str) -> None:
    assert outcome(Service, {"how": how}, backend) == ("return", None)
    assert len(registered) == 16
    assert_reverse_exactly_once()
    assert set(passed.values()) == {None}


@pytest.mark.parametrize("backend", BACKENDS)
def test_service_task_crash_after_startup(backend: str) -> None:
    kind, exc = outcome(Service, {"how": "crash"}, backend)
    assert kind == "raise"
    assert isinstance(exc, OSError) and str(exc) == "service task crashed"
    assert len(registered) == 16
    # The root task group is cancelled when a service task crashes, so callbacks that
    # await get cancelled - but each of them is still called, once, in reverse order
    assert called == list(reversed(registered))
    assert [name for name in torn_down if not name.endswith("async")] == [
        name for name in called if not name.endswith(("async", "aexc"))
    ]
    # The context block itself was ended by the cancellation of the host task
    assert len(passed) == 8
    assert len({id(value) for value in passed.values()}) == 1
    assert all(
        isinstance(value, BaseException) and not isinstance(value, Exception)
        for value in passed.values()
    )


class FailingStart(Component):
    def __init__(self) -> None:
        self.add_component("one", Leaf, label="one")
        self.add_component("two", Leaf, label="two")

    async def start(self) -> None:
        register("root")
        raise RuntimeError("startup failure")


@pytest.mark.parametrize("backend", BACKENDS)
def test_startup_failure(backend: str) -> None:
    assert outcome(FailingStart, {}, backend) == ("exit", 1)
    assert len(registered) == 12
    assert_reverse_exactly_once()
    assert set(passed.values()) == {None}
