"""
Behaviour checks for refactoring 1 (ComponentContext: shared helpers for the component
display name and the effective resource name, resource description formatter moved to
module level).

Everything here goes through the public API only and must pass both on the unchanged
source and with refactor1.diff applied.
"""

from __future__ import annotations

import logging
from typing import Any, Union

import pytest
from anyio import Event, fail_after
from anyio.abc import TaskStatus
from pytest import LogCaptureFixture

from asphalt.core import (
    Component,
    ComponentStartError,
    Context,
    ResourceConflict,
    add_resource,
    add_resource_factory,
    get_resource,
    get_resource_nowait,
    get_resources,
    start_background_task_factory,
    start_component,
    start_service_task,
)

pytestmark = pytest.mark.anyio()


@pytest.fixture(params=["asyncio", "trio"])
def anyio_backend(request: Any) -> str:
    return request.param


def component_messages(caplog: LogCaptureFixture) -> list[str]:
    """Return only the messages logged by ComponentContext methods."""
    return [
        record.getMessage()
        for record in caplog.records
        if record.name == "asphalt.core"
        and (
            " added a resource" in record.getMessage()
            or " started a " in record.getMessage()
            or " is waiting for " in record.getMessage()
            or " got the resource " in record.getMessage()
        )
    ]


async def test_default_name_only_rewritten_during_start(
    caplog: LogCaptureFixture,
) -> None:
    """
    The "default" resource name is replaced by the alias suffix only while start() is
    running - not in prepare(), not for explicit names, and not for the root component.
    """

    class Root(Component):
        def __init__(self) -> None:
            self.add_component("srv/alt", Child)

        async def prepare(self) -> None:
            add_resource(1.5)

        async def start(self) -> None:
            add_resource(b"root")
            add_resource_factory(lambda: 2.5, types=float, description="a factory")

    class Child(Component):
        async def prepare(self) -> None:
            add_resource("in prepare")
            add_resource_factory(make_int)

        async def start(self) -> None:
            add_resource("in start")
            add_resource("explicit", "default_")
            add_resource_factory(make_int)
            add_resource_factory(make_int, "other")

    def make_int() -> int:
        return 11

    caplog.set_level(logging.DEBUG, "asphalt.core")
    async with Context() as ctx:
        await start_component(Root)
        assert get_resources(str) == {
            "default": "in prepare",
            "alt": "in start",
            "default_": "explicit",
        }
        assert get_resource_nowait(float) == 1.5
        assert get_resource_nowait(bytes) == b"root"
        assert get_resource_nowait(int) == 11
        assert get_resource_nowait(int, "alt") == 11
        assert get_resource_nowait(int, "other") == 11
        assert ctx.get_resource_nowait(int, "nonexistent", optional=True) is None

    assert component_messages(caplog) == [
        "The root component added a resource (type=float, name='default')",
        "Component 'srv/alt' added a resource (type=str, name='default')",
        "Component 'srv/alt' added a resource factory (type=int, name='default')",
        "Component 'srv/alt' added a resource (type=str, name='alt')",
        "Component 'srv/alt' added a resource (type=str, name='default_')",
        "Component 'srv/alt' added a resource factory (type=int, name='alt')",
        "Component 'srv/alt' added a resource factory (type=int, name='other')",
        "The root component added a resource (type=bytes, name='default')",
        "The root component added a resource factory (type=float, name='default', "
        "description='a factory')",
    ]


async def test_description_formats(caplog: LogCaptureFixture) -> None:
    class Base:
        pass

    class Derived(Base):
        pass

    def union_factory() -> Union[int, str]:
        return 1

    class Root(Component):
        def __init__(self) -> None:
            self.add_component("outer", Outer)

    class Outer(Component):
        def __init__(self) -> None:
            self.add_component("inner", Inner)

    class Inner(Component):
        async def start(self) -> None:
            add_resource(Derived(), "multi", [Base, Derived], description="two types")
            add_resource(Derived(), "single", Base, description="")
            add_resource(Derived(), "tup", (Derived,))
            add_resource_factory(union_factory, "u", description="union")
            add_resource_factory(lambda: 1.0, "f", types=[float, complex])

    caplog.set_level(logging.DEBUG, "asphalt.core")
    async with Context():
        await start_component(Root)

    prefix = f"{__name__}.test_description_formats.<locals>."
    union_type = type(Union[int, str])
    union_name = f"{union_type.__module__}.{union_type.__qualname__}"
    assert component_messages(caplog) == [
        f"Component 'outer.inner' added a resource (types=[{prefix}Base, "
        f"{prefix}Derived], name='multi', description='two types')",
        f"Component 'outer.inner' added a resource (type={prefix}Base, name='single')",
        f"Component 'outer.inner' added a resource (types=[{prefix}Derived], "
        f"name='tup')",
        f"Component 'outer.inner' added a resource factory (type={union_name}, "
        f"name='u', description='union')",
        "Component 'outer.inner' added a resource factory (types=[float, complex], "
        "name='f')",
    ]


async def test_conflict_on_effective_name(caplog: LogCaptureFixture) -> None:
    """
    The conflict is detected on the rewritten name, the error is wrapped, and nothing is
    logged for the failed addition.
    """

    class Root(Component):
        def __init__(self) -> None:
            self.add_component("first/shared", Adder, value="one")
            self.add_component("second", Conflicting)

        async def prepare(self) -> None:
            add_resource("zero", "shared")

    class Adder(Component):
        def __init__(self, value: str) -> None:
            self.value = value

        async def start(self) -> None:
            add_resource(7)
            add_resource(self.value)

    class Conflicting(Component):
        async def start(self) -> None:
            pass

    caplog.set_level(logging.DEBUG, "asphalt.core")
    async with Context():
        with pytest.raises(ComponentStartError) as exc_info:
            await start_component(Root)

        # The int resource was added before the failure
        assert get_resource_nowait(int, "shared") == 7
        assert get_resources(str) == {"shared": "zero"}

    assert str(exc_info.value) == (
        f"error starting component 'first/shared' ({__name__}."
        f"test_conflict_on_effective_name.<locals>.Adder): "
        f"asphalt.core.ResourceConflict: this context already contains a resource of "
        f"type str using the name 'shared'"
    )
    assert isinstance(exc_info.value.__cause__, ResourceConflict)
    assert component_messages(caplog) == [
        "The root component added a resource (type=str, name='shared')",
        "Component 'first/shared' added a resource (type=int, name='shared')",
    ]


async def test_factory_conflict_and_invalid_name(caplog: LogCaptureFixture) -> None:
    errors: list[BaseException] = []

    class Root(Component):
        def __init__(self) -> None:
            self.add_component("child/bad-name", Child)

    class Child(Component):
        async def prepare(self) -> None:
            add_resource_factory(lambda: 1, types=int)
            try:
                add_resource_factory(lambda: 2, types=[int])
            except ResourceConflict as exc:
                errors.append(exc)

        async def start(self) -> None:
            # The default name is rewritten to "bad-name" which is not a valid name
            for func in (
                lambda: add_resource("x"),
                lambda: add_resource_factory(lambda: "x", types=str),
                lambda: add_resource(None, "none"),
                lambda: add_resource_factory(lambda: "x", "untyped"),
            ):
                try:
                    func()
                except (ValueError, TypeError) as exc:
                    errors.append(exc)

            add_resource("y", "good")

    caplog.set_level(logging.DEBUG, "asphalt.core")
    async with Context():
        await start_component(Root)
        assert get_resources(str) == {"good": "y"}

    name_error = (
        '"name" must be a nonempty string consisting only of alphanumeric '
        "characters and underscores"
    )
    assert [(type(exc), str(exc)) for exc in errors] == [
        (
            ResourceConflict,
            "this context already contains a resource factory for the type int",
        ),
        (ValueError, name_error),
        (ValueError, name_error),
        (ValueError, '"value" must not be None'),
        (
            ValueError,
            "no resource types specified, and the factory callback does not have a "
            "return type hint",
        ),
    ]
    assert component_messages(caplog) == [
        "Component 'child/bad-name' added a resource factory (type=int, "
        "name='default')",
        "Component 'child/bad-name' added a resource (type=str, name='good')",
    ]


async def test_waiting_and_task_logs(caplog: LogCaptureFixture) -> None:
    async def service(*, task_status: TaskStatus[str]) -> None:
        task_status.started("started value")

    class Root(Component):
        def __init__(self) -> None:
            self.add_component("provider/special", Provider)
            self.add_component("consumer", Consumer)

    class Provider(Component):
        async def start(self) -> None:
            await consumer_waiting.wait()
            add_resource("wrong type and name", "other")
            add_resource(3, "other")
            add_resource("provided")

    class Consumer(Component):
        async def start(self) -> None:
            assert await get_resource(str, "special", optional=True) is None
            factory = await start_background_task_factory()
            assert await start_service_task(service, "svc") == "started value"
            factory.start_task_soon(signal_waiting)
            with fail_after(3):
                results.append(await get_resource(str, "special"))

            results.append(await get_resource(int, "other"))

    async def signal_waiting() -> None:
        consumer_waiting.set()

    caplog.set_level(logging.DEBUG, "asphalt.core")
    consumer_waiting = Event()
    results: list[object] = []
    async with Context():
        await start_component(Root)

    assert results == ["provided", 3]
    assert component_messages(caplog) == [
        "Component 'consumer' started a background task factory",
        "Component 'consumer' started a service task (svc)",
        "Component 'consumer' is waiting for another component to provide a resource "
        "(type=str, name='special')",
        "Component 'provider/special' added a resource (type=str, name='other')",
        "Component 'provider/special' added a resource (type=int, name='other')",
        "Component 'provider/special' added a resource (type=str, name='special')",
        "Component 'consumer' got the resource it was waiting for (type=str, "
        "name='special')",
    ]
