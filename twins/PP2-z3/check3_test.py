"""
Behaviour checks for refactoring 3 (the decoration-time scan of the parameters and the
first-call resolution of the annotations in ``inject``, and the ``resource()`` marker).

Runs against the public API only and must pass on the unchanged source as well as on
the refactored one.
"""

from __future__ import annotations

import functools
import sys
import warnings
from typing import Any, Dict, Optional, Union

import pytest

from asphalt.core import (
    Context,
    ResourceNotFound,
    add_resource,
    inject,
    resource,
)

pytestmark = pytest.mark.anyio()

PREFIX = f"{__name__}."
UNION_MESSAGE = (
    "Unions are only valid with dependency injection when there are exactly two "
    "items and other item is None"
)
MARKER_MESSAGE = (
    "Attempted to access an attribute in a resource() marker – did you forget to add "
    "the @inject decorator?"
)


@pytest.fixture
def anyio_backend() -> str:
    return "asyncio"


class TestMarker:
    def test_marker_attributes(self) -> None:
        marker = resource()
        assert marker.name == "default"
        assert marker.optional is False
        assert resource("other").name == "other"
        assert resource(name="kw").name == "kw"
        assert resource() is not resource()
        assert repr(resource("x")) == "_Dependency(name='x', optional=False)"

    @pytest.mark.parametrize("attrname", ["cls", "lower", "value", "_private"])
    def test_marker_unknown_attribute(self, attrname: str) -> None:
        with pytest.raises(AttributeError) as exc:
            getattr(resource(), attrname)

        assert str(exc.value) == MARKER_MESSAGE

    def test_undecorated_function_gets_marker(self) -> None:
        def func(res: str = resource()) -> str:
            return res.upper()

        with pytest.raises(AttributeError) as exc:
            func()

        assert str(exc.value) == MARKER_MESSAGE


class TestParameterScan:
    def test_positional_only(self) -> None:
        def func(a: int, b: str = resource(), /, c: int = resource()) -> None:
            pass

        with pytest.raises(TypeError) as exc:
            inject(func)

        assert str(exc.value) == (
            "Cannot inject dependency to positional-only parameter 'b'"
        )

    def test_missing_annotation(self) -> None:
        def func(a: int, b=resource(), *, c: int = resource()) -> None:  # type: ignore[no-untyped-def]
            pass

        with pytest.raises(TypeError) as exc:
            inject(func)

        assert str(exc.value) == (
            f"Dependency for parameter 'b' of function "
            f"'{PREFIX}TestParameterScan.test_missing_annotation.<locals>.func' is "
            f"missing the type annotation"
        )

    def test_missing_parentheses(self) -> None:
        async def func(a: int, *, b: str = resource) -> None:  # type: ignore[assignment]
            pass

        with pytest.raises(TypeError) as exc:
            inject(func)

        assert str(exc.value) == (
            f"Default value for parameter 'b' of function "
            f"{PREFIX}TestParameterScan.test_missing_parentheses.<locals>.func was the "
            f"'resource' function – did you forget to add the parentheses at the end?"
        )

    def test_missing_parentheses_without_annotation(self) -> None:
        def func(b=resource) -> None:  # type: ignore[no-untyped-def]
            pass

        with pytest.raises(TypeError, match="was the 'resource' function"):
            inject(func)

    def test_positional_only_without_annotation(self) -> None:
        # The positional-only check of a parameter comes before its annotation check
        def func(b=resource(), /) -> None:  # type: ignore[no-untyped-def]
            pass

        with pytest.raises(TypeError, match="positional-only parameter 'b'"):
            inject(func)

    def test_first_offending_parameter_is_reported(self) -> None:
        def func1(a=resource(), b: str = resource, /) -> None:  # type: ignore[no-untyped-def,assignment]
            pass

        def func2(a: str = resource, b=resource(), /) -> None:  # type: ignore[no-untyped-def,assignment]
            pass

        def func3(a: str = resource(), *, b=resource(), c=resource) -> None:  # type: ignore[no-untyped-def]
            pass

        with pytest.raises(TypeError, match="positional-only parameter 'a'"):
            inject(func1)

        with pytest.raises(TypeError, match="parameter 'a' .* the 'resource' function"):
            inject(func2)

        with pytest.raises(TypeError, match="'b' .* is missing the type annotation"):
            inject(func3)

    def test_errors_take_precedence_over_warning(self) -> None:
        def func(a: int, b=resource()) -> None:  # type: ignore[no-untyped-def]
            pass

        with warnings.catch_warnings(record=True) as caught:
            warnings.simplefilter("always")
            with pytest.raises(TypeError):
                inject(func)

        assert caught == []

    def test_other_defaults_are_ignored(self) -> None:
        class Weird:
            def __eq__(self, other: object) -> bool:
                raise AssertionError("defaults must not be compared")

            __hash__ = None  # type: ignore[assignment]

        def func(a: Any = Weird(), b: Any = None, c: Any = "resource") -> None:
            pass

        with pytest.warns(UserWarning, match="does not have any injectable resources"):
            assert inject(func) is func

    def test_not_a_callable(self) -> None:
        class Thing:
            def __init__(self) -> None:
                self.__qualname__ = "Thing"

        with pytest.raises(TypeError, match="is not a callable object"):
            inject(Thing())  # type: ignore[arg-type]

    def test_object_without_qualname(self) -> None:
        def func(res: str = resource()) -> str:
            return res

        with pytest.raises(AttributeError, match="__qualname__"):
            inject(functools.partial(func))

    def test_builtin_function(self) -> None:
        with pytest.warns(UserWarning) as caught:
            assert inject(len) is len

        assert str(caught[0].message) == (
            "len does not have any injectable resources declared"
        )

    async def test_callable_class(self) -> None:
        class Service:
            def __init__(self, factor: int, res: str = resource()) -> None:
                self.value = res * factor

        # The markers are found through the signature of the class, but the type hints
        # of a class are those of its body, so the first call fails
        factory = inject(Service)
        assert factory is not Service
        async with Context():
            add_resource("ab")
            for _ in range(2):
                with pytest.raises(KeyError) as exc:
                    factory(2)

                assert exc.value.args == ("res",)

    async def test_parameter_kinds(self) -> None:
        @inject
        def func(
            a: int,
            /,
            b: int,
            c: str = resource(),
            *args: int,
            d: Optional[float] = resource("d"),
            e: int = 5,
            **kwargs: int,
        ) -> Any:
            return a, b, c, args, d, e, kwargs

        async with Context():
            add_resource("text")
            assert func(1, 2) == (1, 2, "text", (), None, 5, {})
            assert func(1, b=2, e=6, z=9) == (1, 2, "text", (), None, 6, {"z": 9})
            add_resource(0.5, "d")
            assert func(1, 2) == (1, 2, "text", (), 0.5, 5, {})


class TestResolution:
    async def test_resolution_order_and_state_after_failure(self) -> None:
        def func(
            a: Optional[str] = resource(),
            b: Union[int, str] = resource(),
            c: Optional[int] = resource(),
        ) -> None:
            pass

        wrapper = inject(func)
        a, b, c = func.__defaults__  # type: ignore[misc]
        for marker in (a, b, c):
            with pytest.raises(AttributeError):
                marker.cls

        async with Context():
            with pytest.raises(TypeError) as exc:
                wrapper()

            assert str(exc.value) == UNION_MESSAGE

        assert (a.cls, a.optional) == (str, True)
        assert (b.cls, b.optional) == (Union[int, str], False)
        assert c.optional is False
        with pytest.raises(AttributeError):
            c.cls

        # Repairing the annotation makes the next call succeed
        func.__annotations__["b"] = "Optional[int]"
        async with Context():
            add_resource(3)
            wrapper()

        assert (b.cls, b.optional) == (int, True)
        assert (c.cls, c.optional) == (int, True)

    async def test_shared_marker(self) -> None:
        # One marker object used by two functions: the function whose annotations get
        # resolved last wins, and a marker once made optional stays optional
        shared = resource()

        @inject
        def first(res: Optional[str] = shared) -> Any:
            return res

        @inject
        def second(res: int = shared) -> Any:
            return res

        async with Context():
            assert first() is None
            assert (shared.cls, shared.optional) == (str, True)
            assert second() is None
            assert (shared.cls, shared.optional) == (int, True)
            add_resource("text")
            add_resource(5)
            assert second() == 5
            assert first() == 5

    async def test_mandatory_resource_missing(self) -> None:
        @inject
        async def func(res: Dict[str, int] = resource("mapping")) -> Any:
            return res

        async with Context():
            with pytest.raises(ResourceNotFound) as exc:
                await func()

            assert exc.value.type == Dict[str, int]
            assert exc.value.name == "mapping"

    async def test_module_level_function_ignores_caller_locals(self) -> None:
        # For a function that is not nested, the locals of the frame where inject() was
        # called are not consulted
        ModuleLevelResource = int  # noqa: F841, N806
        wrapper = inject(module_level_function)
        async with Context():
            add_resource("text")
            add_resource(5)
            assert wrapper() == "text"

    async def test_nested_function_uses_caller_locals(self) -> None:
        ModuleLevelResource = int  # noqa: F841, N806

        def nested(res: "ModuleLevelResource" = resource()) -> Any:
            return res

        wrapper = inject(nested)
        async with Context():
            add_resource("text")
            add_resource(5)
            assert wrapper() == 5

    async def test_locals_are_those_of_the_decorating_frame(self) -> None:
        def make() -> Any:
            def nested(res: "Hidden" = resource()) -> Any:  # type: ignore[name-defined]  # noqa: F821
                return res

            return nested

        def decorate(func: Any) -> Any:
            Hidden = bytes  # noqa: F841, N806
            return inject(func)

        wrapper = decorate(make())
        async with Context():
            add_resource(b"found")
            assert wrapper() == b"found"

    @pytest.mark.skipif(sys.version_info < (3, 10), reason="Requires Python 3.10+")
    async def test_bad_pep604_union(self) -> None:
        @inject
        async def func(res: "int | str | None" = resource()) -> Any:
            return res

        async with Context():
            with pytest.raises(TypeError) as exc:
                await func()

            assert str(exc.value) == UNION_MESSAGE


ModuleLevelResource = str


def module_level_function(res: "ModuleLevelResource" = resource()) -> Any:
    return res
