"""
Property C09 checks (emphasis: inherited context snapshot, teardown waits, several
factories side by side).

Must pass on the unchanged source and with refactor2.diff applied.
"""

from __future__ import annotations

import sys
from typing import Any, NoReturn

import pytest
from anyio import Event, fail_after, sleep, wait_all_tasks_blocked

from asphalt.core import (
    CLIApplicationComponent,
    Context,
    add_resource,
    current_context,
    get_resource_nowait,
    run_application,
    start_background_task_factory,
)

if sys.version_info < (3, 11):
    from exceptiongroup import ExceptionGroup

pytestmark = pytest.mark.anyio()


@pytest.fixture(params=["asyncio", "trio"])
def anyio_backend(request: Any) -> str:
    return request.param


def flatten(exc: BaseException) -> list[BaseException]:
    if isinstance(exc, BaseExceptionGroup):
        result: list[BaseException] = []
        for sub in exc.exceptions:
            result.extend(flatten(sub))
        return result
    return [exc]


async def test_context_is_snapshot_of_factory_not_of_spawner() -> None:
    observed: list[dict[str, Any]] = []

    async def probe() -> None:
        observed.append(
            {
                "str": get_resource_nowait(str, optional=True),
                "int": get_resource_nowait(int, optional=True),
                "bytes": get_resource_nowait(bytes, optional=True),
                "float": get_resource_nowait(float, optional=True),
                "ctx": current_context(),
            }
        )
        add_resource(2.5)  # must stay private to this task's own context

    async with Context() as owner:
        add_resource("before")
        factory = await start_background_task_factory()
        add_resource(7)  # added to the owner after the factory was started

        # spawned directly from the owning context
        first = await factory.start_task(probe, "first")
        async with Context() as spawner_ctx:
            add_resource(b"spawner-only")
            # spawned from an unrelated subcontext, via both start methods
            second = await factory.start_task(probe, "second")
            third = factory.start_task_soon(probe, "third")
            with fail_after(5):
                for handle in (first, second, third):
                    await handle.wait_finished()

        assert get_resource_nowait(float, optional=True) is None

    assert len(observed) == 3
    for item in observed:
        assert item["str"] == "before"
        assert item["int"] is None  # snapshot taken at factory start
        assert item["bytes"] is None  # never the spawner's context
        assert item["float"] is None  # fresh context for every task
        assert item["ctx"] not in (owner, spawner_ctx)
        assert item["ctx"].parent is not spawner_ctx

    assert len({id(item["ctx"]) for item in observed}) == 3
    assert len({id(item["ctx"].parent) for item in observed}) == 1


async def test_two_factories_are_independent() -> None:
    handled_a: list[Exception] = []
    handled_b: list[Exception] = []
    gate = Event()

    def handler_a(exc: Exception) -> bool:
        handled_a.append(exc)
        return True

    def handler_b(exc: Exception) -> bool:
        handled_b.append(exc)
        return True

    async def wait_then_fail(message: str) -> NoReturn:
        await gate.wait()
        raise LookupError(message)

    async def wait_only() -> None:
        await gate.wait()

    async with Context():
        add_resource("outer")
        factory_a = await start_background_task_factory(exception_handler=handler_a)
        async with Context():
            add_resource(1)
            factory_b = await start_background_task_factory(
                exception_handler=handler_b
            )
            a1 = factory_a.start_task_soon(lambda: wait_then_fail("a"), "a1")
            a2 = await factory_a.start_task(wait_only, "a2")
            b1 = await factory_b.start_task(lambda: wait_then_fail("b"), "b1")
            assert factory_a.all_task_handles() == {a1, a2}
            assert factory_b.all_task_handles() == {b1}
            b1.cancel()
            with fail_after(5):
                await b1.wait_finished()

            assert factory_b.all_task_handles() == set()
            assert factory_a.all_task_handles() == {a1, a2}
            b2 = factory_b.start_task_soon(lambda: wait_then_fail("b2"), "b2")
            gate.set()
            # inner context teardown waits for b2 (which fails into handler_b)

        assert [str(exc) for exc in handled_b] == ["b2"]
        assert factory_b.all_task_handles() == set()
        with fail_after(5):
            await b2.wait_finished()
            await a1.wait_finished()
            await a2.wait_finished()

        assert factory_a.all_task_handles() == set()

    assert [str(exc) for exc in handled_a] == ["a"]
    assert [str(exc) for exc in handled_b] == ["b2"]


@pytest.mark.parametrize("verdict", [False, None, 0, ""], ids=repr)
async def test_falsy_verdict_propagates_out_of_root(verdict: Any) -> None:
    calls: list[Exception] = []

    def handler(exc: Exception) -> Any:
        calls.append(exc)
        return verdict

    async def fail() -> NoReturn:
        raise OSError("not handled")

    with pytest.raises(ExceptionGroup) as excinfo:
        async with Context():
            async with Context():
                factory = await start_background_task_factory(
                    exception_handler=handler
                )
                factory.start_task_soon(fail, "fail")
                await sleep(3600)  # the root task group gets cancelled by the error

    leaves = flatten(excinfo.value)
    assert len(leaves) == 1 and leaves[0] is calls[0]
    assert len(calls) == 1
    assert isinstance(leaves[0], OSError)


@pytest.mark.parametrize("verdict", [True, 1, "yes", [0]], ids=repr)
async def test_truthy_verdict_swallows(verdict: Any) -> None:
    calls: list[Exception] = []

    def handler(exc: Exception) -> Any:
        calls.append(exc)
        return verdict

    async def fail() -> NoReturn:
        raise OSError("handled")

    async with Context():
        factory = await start_background_task_factory(exception_handler=handler)
        handle = await factory.start_task(fail, "fail")
        with fail_after(5):
            await handle.wait_finished()

        await wait_all_tasks_blocked()
        assert factory.all_task_handles() == set()

    assert len(calls) == 1 and str(calls[0]) == "handled"


async def test_teardown_waits_when_spawned_during_teardown_window() -> None:
    """A task that spawns more work while the owner is already tearing down."""
    order: list[str] = []
    go = Event()

    async def child() -> None:
        await sleep(0.05)
        order.append("child done")

    async def parent() -> None:
        await go.wait()
        await sleep(0.05)  # by now the owning context is being torn down
        handle = factory.start_task_soon(child, "child")
        assert handle in factory.all_task_handles()
        order.append("parent done")

    async with Context():
        async with Context():
            factory = await start_background_task_factory()
            parent_handle = await factory.start_task(parent, "parent")
            go.set()

        order.append("inner context closed")
        assert parent_handle not in factory.all_task_handles()
        assert factory.all_task_handles() == set()

    assert order == ["parent done", "child done", "inner context closed"]


def test_component_factory_in_application(anyio_backend: str) -> None:
    results: list[Any] = []

    class Worker(CLIApplicationComponent):
        async def start(self) -> None:
            add_resource("component-resource")
            self.factory = await start_background_task_factory()
            add_resource(99)

        async def run(self) -> None:
            async def job() -> None:
                await sleep(0.05)
                results.append(
                    (get_resource_nowait(str), get_resource_nowait(int, optional=True))
                )

            # spawned from the context of run(); returning from run() tears the
            # application's root context down while both jobs are still sleeping
            self.factory.start_task_soon(job, "job")
            self.factory.start_task_soon(job)

    run_application(Worker, backend=anyio_backend, logging=None)
    assert results == [("component-resource", None)] * 2
