"""Behaviour checks for refactoring 2 (service task start / teardown actions)."""

from __future__ import annotations

import logging
import sys
from typing import Any, NoReturn

import anyio
import pytest
from anyio import Event, fail_after, get_cancelled_exc_class, get_current_task
from anyio.abc import TaskStatus
from pytest import LogCaptureFixture

from asphalt.core import Context, add_teardown_callback, start_service_task

if sys.version_info < (3, 11):
    from exceptiongroup import BaseExceptionGroup

pytestmark = pytest.mark.anyio()


@pytest.fixture
def anyio_backend() -> str:
    return "asyncio"


def flatten(exc: BaseException) -> list[BaseException]:
    if isinstance(exc, BaseExceptionGroup):
        return [leaf for sub in exc.exceptions for leaf in flatten(sub)]

    return [exc]


@pytest.mark.parametrize("bad", ["fail", "Cancel", 0, 1.5, b"cancel", ("cancel",)])
async def test_bad_teardown_action(bad: Any, caplog: LogCaptureFixture) -> None:
    caplog.set_level(logging.DEBUG, "asphalt.core")
    called = False

    async def service_func() -> None:
        nonlocal called
        called = True

    async with Context():
        with pytest.raises(ValueError) as excinfo:
            await start_service_task(service_func, "Dummy", teardown_action=bad)

        await anyio.wait_all_tasks_blocked()

    assert str(excinfo.value) == (
        "teardown_action must be a callable, None, or the string 'cancel'"
    )
    # nothing was started nor registered for teardown
    assert not called
    assert caplog.messages == []


async def test_cancel_action(caplog: LogCaptureFixture) -> None:
    caplog.set_level(logging.DEBUG, "asphalt.core")
    events: list[str] = []

    async def service_func(task_status: TaskStatus[str]) -> None:
        assert get_current_task().name == "Service task: Dummy"
        task_status.started("startval")
        try:
            await anyio.sleep_forever()
        except get_cancelled_exc_class():
            events.append("cancelled")
            raise

    with fail_after(2):
        async with Context():
            add_teardown_callback(lambda: events.append("early callback"))
            retval = await start_service_task(service_func, "Dummy")
            assert retval == "startval"
            add_teardown_callback(lambda: events.append("late callback"))

    assert events == ["late callback", "cancelled", "early callback"]
    assert caplog.messages == [
        "Background task (Service task: Dummy) starting",
        "Cancelling service task 'Dummy'",
        "Waiting for service task 'Dummy' to finish",
        "Background task (Service task: Dummy) finished successfully",
        "Service task 'Dummy' finished",
    ]


async def test_none_action(caplog: LogCaptureFixture) -> None:
    caplog.set_level(logging.DEBUG, "asphalt.core")
    finished = False

    async def service_func() -> None:
        nonlocal finished
        await event.wait()
        await anyio.sleep(0.05)
        finished = True

    event = Event()
    with fail_after(2):
        async with Context():
            retval = await start_service_task(
                service_func, "Quiet", teardown_action=None
            )
            assert retval is None
            event.set()

    assert finished
    assert caplog.messages == [
        "Background task (Service task: Quiet) starting",
        "Waiting for service task 'Quiet' to finish",
        "Background task (Service task: Quiet) finished successfully",
        "Service task 'Quiet' finished",
    ]


@pytest.mark.parametrize("is_async", [False, True])
async def test_callable_action(is_async: bool, caplog: LogCaptureFixture) -> None:
    caplog.set_level(logging.DEBUG, "asphalt.core")
    event = Event()

    def sync_callback() -> None:
        event.set()

    async def async_callback() -> None:
        await anyio.sleep(0.01)
        event.set()

    async def service_func() -> None:
        await event.wait()

    callback = async_callback if is_async else sync_callback
    with fail_after(2):
        async with Context():
            await start_service_task(service_func, "Svc", teardown_action=callback)

    cbname = f"{__name__}.test_callable_action.<locals>.{callback.__name__}"
    assert caplog.messages == [
        "Background task (Service task: Svc) starting",
        f"Calling teardown callback ({cbname}) for service task 'Svc'",
        "Waiting for service task 'Svc' to finish",
        "Background task (Service task: Svc) finished successfully",
        "Service task 'Svc' finished",
    ]


@pytest.mark.parametrize("is_async", [False, True])
async def test_failing_callback_cancels_task(
    is_async: bool, caplog: LogCaptureFixture
) -> None:
    cancelled = False

    def sync_callback() -> NoReturn:
        raise Exception("foo")

    async def async_callback() -> NoReturn:
        await anyio.sleep(0)
        raise Exception("foo")

    async def service_func() -> None:
        nonlocal cancelled
        try:
            await anyio.sleep_forever()
        except get_cancelled_exc_class():
            cancelled = True
            raise

    callback = async_callback if is_async else sync_callback
    with fail_after(2):
        async with Context():
            await start_service_task(service_func, "Svc", teardown_action=callback)

    assert cancelled
    cbname = (
        f"{__name__}.test_failing_callback_cancels_task.<locals>.{callback.__name__}"
    )
    assert caplog.messages == [
        f"Error calling teardown callback ({cbname}) for service task 'Svc'"
    ]
    record = caplog.records[0]
    assert record.levelno == logging.ERROR
    assert record.exc_info is not None
    assert isinstance(record.exc_info[1], Exception)
    assert str(record.exc_info[1]) == "foo"


async def test_base_exception_from_callback_is_swallowed(
    caplog: LogCaptureFixture,
) -> None:
    """A non-Exception from the callback cancels the task, without an error log."""
    caplog.set_level(logging.DEBUG, "asphalt.core")
    cancelled = False

    class Custom(BaseException):
        pass

    def callback() -> NoReturn:
        raise Custom

    async def service_func() -> None:
        nonlocal cancelled
        try:
            await anyio.sleep_forever()
        except get_cancelled_exc_class():
            cancelled = True
            raise

    with fail_after(2):
        async with Context():
            await start_service_task(service_func, "Svc", teardown_action=callback)

    assert cancelled
    assert not [r for r in caplog.records if r.levelno >= logging.WARNING]
    assert caplog.messages[-3:] == [
        "Waiting for service task 'Svc' to finish",
        "Background task (Service task: Svc) finished successfully",
        "Service task 'Svc' finished",
    ]


async def test_service_task_crash_on_start() -> None:
    """If the task fails before started(), nothing is registered for teardown."""

    async def service_func(task_status: TaskStatus[None]) -> NoReturn:
        raise RuntimeError("no start")

    events: list[str] = []
    with fail_after(2):
        async with Context():
            add_teardown_callback(lambda: events.append("cb"))
            with pytest.raises(RuntimeError, match="no start"):
                await start_service_task(service_func, "Broken")

    assert events == ["cb"]


async def test_service_task_crash_later(caplog: LogCaptureFixture) -> None:
    async def service_func() -> NoReturn:
        await event.wait()
        raise RuntimeError("late crash")

    event = Event()
    with pytest.raises(BaseException) as excinfo:
        with fail_after(2):
            async with Context():
                await start_service_task(service_func, "Crasher")
                event.set()
                await anyio.sleep(1)

    leaves = flatten(excinfo.value)
    assert [type(e) for e in leaves] == [RuntimeError]
    assert str(leaves[0]) == "late crash"
    assert "Background task (Service task: Crasher) crashed" in caplog.messages


async def test_multiple_service_tasks_torn_down_in_reverse() -> None:
    order: list[str] = []

    def make(name: str) -> Any:
        async def service_func() -> None:
            try:
                await anyio.sleep_forever()
            finally:
                order.append(name)

        return service_func

    with fail_after(2):
        async with Context():
            for name in ("a", "b", "c"):
                await start_service_task(make(name), name)

    assert order == ["c", "b", "a"]
