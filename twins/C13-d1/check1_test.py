"""
C13 demo 2: ``Context.get_resource()`` must refuse to work on a context that has been
closed - also when the call was *made* while the context was still open and is only
awaited after the context has been closed (the lookup itself happens when the returned
awaitable runs). It must not return anything from, nor store anything in, the closed
context.
"""

from __future__ import annotations

import anyio
import pytest

from asphalt.core import Context

pytestmark = pytest.mark.anyio


@pytest.fixture
def anyio_backend() -> str:
    return "asyncio"


async def test_lookup_requested_while_open_awaited_after_close() -> None:
    async with Context() as ctx:
        ctx.add_resource("value")
        pending = ctx.get_resource(str)

    assert ctx.closed
    with pytest.raises(RuntimeError, match="already been closed"):
        await pending


async def test_factory_not_triggered_on_closed_context() -> None:
    calls: list[int] = []

    def factory() -> int:
        calls.append(1)
        return 7

    async with Context() as ctx:
        ctx.add_resource_factory(factory, types=[int])
        pending = ctx.get_resource(int)

    with pytest.raises(RuntimeError, match="already been closed"):
        await pending

    # ...and nothing was changed
    assert calls == []
    assert ctx.get_resources(int) == {}


async def test_lookup_deferred_to_task_running_after_close() -> None:
    """The same thing with the awaitable handed to a task that runs later."""
    outcome: list[object] = []

    async def consume(awaitable, gate: anyio.Event) -> None:  # type: ignore[no-untyped-def]
        await gate.wait()
        try:
            outcome.append(await awaitable)
        except RuntimeError as exc:
            outcome.append(exc)

    gate = anyio.Event()
    async with anyio.create_task_group() as tg:
        async with Context() as ctx:
            ctx.add_resource(3.5)
            tg.start_soon(consume, ctx.get_resource(float), gate)
            await anyio.sleep(0)

        gate.set()

    assert len(outcome) == 1
    assert isinstance(outcome[0], RuntimeError)
    assert str(outcome[0]) == "this context has already been closed"


async def test_immediate_use_still_checked() -> None:
    """Control: the ordinary cases behave the same with and without the change."""
    ctx = Context()
    with pytest.raises(RuntimeError, match="not been entered yet"):
        await ctx.get_resource(int)

    async with ctx:
        ctx.add_resource(1)
        assert await ctx.get_resource(int) == 1

    with pytest.raises(RuntimeError, match="already been closed"):
        await ctx.get_resource(int)
