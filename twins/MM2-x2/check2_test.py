"""
Behaviour checks for refactoring 2 (argument validation and type normalisation in
``Context.add_resource`` / ``Context.add_resource_factory`` and their shortcuts).

Must pass both on the unchanged source and with refactor2.diff applied.
"""

from __future__ import annotations

import sys
from collections.abc import AsyncGenerator, Sequence
from contextlib import asynccontextmanager
from typing import Any, Callable, Optional, Union

import pytest
from anyio import create_task_group, wait_all_tasks_blocked

from asphalt.core import (
    Context,
    NoCurrentContext,
    ResourceConflict,
    ResourceEvent,
    add_resource,
    add_resource_factory,
)

pytestmark = pytest.mark.anyio

NAME_ERROR = (
    '"name" must be a nonempty string consisting only of alphanumeric '
    "characters and underscores"
)


@pytest.fixture
def anyio_backend() -> str:
    return "asyncio"


@asynccontextmanager
async def record_events(ctx: Context) -> AsyncGenerator[list[ResourceEvent], None]:
    events: list[ResourceEvent] = []

    async def listener(*, task_status: Any) -> None:
        async with ctx.resource_added.stream_events() as stream:
            task_status.started()
            async for event in stream:
                events.append(event)

    async with create_task_group() as tg:
        await tg.start(listener)
        yield events
        await wait_all_tasks_blocked()
        tg.cancel_scope.cancel()


def summarize(events: list[ResourceEvent]) -> list[tuple[Any, ...]]:
    return [
        (e.resource_types, e.resource_name, e.resource_description, e.is_factory)
        for e in events
    ]


class NotASequence:
    """Truthy object that is neither a class nor a sequence."""


class Base:
    pass


class Derived(Base):
    pass


@pytest.fixture(params=["method", "shortcut"])
def use_shortcut(request: pytest.FixtureRequest) -> bool:
    return request.param == "shortcut"


def adder(ctx: Context, use_shortcut: bool) -> Callable[..., None]:
    return add_resource if use_shortcut else ctx.add_resource


def factory_adder(ctx: Context, use_shortcut: bool) -> Callable[..., None]:
    return add_resource_factory if use_shortcut else ctx.add_resource_factory


class TestAddResource:
    async def test_type_normalisation(self, use_shortcut: bool) -> None:
        async with Context() as ctx:
            add = adder(ctx, use_shortcut)
            async with record_events(ctx) as events:
                add(Derived())  # type of the value
                add(Derived(), "single", Base)  # a single class
                add(Derived(), "lst", [Base, Derived])  # list
                add(Derived(), "tpl", (Derived, object))  # tuple
                add([1], "generic", list[int])  # parametrized generic
                add([1], "generics", [list[int], Sequence[int]], description="d")
                add(5, "opt", Optional[int])  # has an origin, hence a single "type"
                add(6, "empty_list", [])  # falsy -> type of the value
                add(7, "empty_tuple", ())

            assert summarize(events) == [
                ((Derived,), "default", None, False),
                ((Base,), "single", None, False),
                ((Base, Derived), "lst", None, False),
                ((Derived, object), "tpl", None, False),
                ((list[int],), "generic", None, False),
                ((list[int], Sequence[int]), "generics", "d", False),
                ((Optional[int],), "opt", None, False),
                ((int,), "empty_list", None, False),
                ((int,), "empty_tuple", None, False),
            ]
            assert all(type(e.resource_types) is tuple for e in events)
            assert ctx.get_resource_nowait(Base, "lst") is ctx.get_resource_nowait(
                Derived, "lst"
            )
            assert ctx.get_resource_nowait(list[int], "generics") == [1]
            assert ctx.get_resource_nowait(Optional[int], "opt") == 5  # type: ignore[arg-type]
            assert sorted(ctx.get_resources(int)) == ["empty_list", "empty_tuple"]

    @pytest.mark.parametrize(
        "types",
        [
            pytest.param("str", id="string"),
            pytest.param(["str"], id="list_of_strings"),
            pytest.param([int, "str"], id="mixed_list"),
            pytest.param((int, None), id="tuple_with_none"),
            pytest.param(NotASequence(), id="non_sequence_object"),
            pytest.param(5, id="integer"),
            pytest.param([[int]], id="nested_list"),
        ],
    )
    async def test_bad_types(self, use_shortcut: bool, types: Any) -> None:
        async with Context() as ctx:
            async with record_events(ctx) as events:
                with pytest.raises(TypeError) as exc:
                    adder(ctx, use_shortcut)(1, "x", types)

                assert str(exc.value) == "types must be a type or sequence of types"

            assert events == []
            assert ctx.get_resources(int) == {}

    async def test_validation_order(self, use_shortcut: bool) -> None:
        """The checks run in the order: state, types, value, name, conflicts."""
        teardowns: list[str] = []

        async with Context() as ctx:
            add = adder(ctx, use_shortcut)
            add(1, "taken")
            # types are checked before the value
            with pytest.raises(TypeError, match="^types must be a type or sequence"):
                add(None, "bad name", "str")

            # the value is checked before the name
            with pytest.raises(ValueError) as exc:
                add(None, "bad name", int)

            assert str(exc.value) == '"value" must not be None'
            with pytest.raises(ValueError) as exc:
                add(None, "bad name")

            assert str(exc.value) == '"value" must not be None'

            # the name is checked before conflicts
            with pytest.raises(ValueError) as exc:
                add(1, "bad name")

            assert str(exc.value) == NAME_ERROR

            # conflicts are checked before the teardown callback is validated or added
            with pytest.raises(ResourceConflict) as exc2:
                add(2, "taken", [str, int, float], teardown_callback="notcallable")

            assert str(exc2.value) == (
                "this context already contains a resource of type int using the name "
                "'taken'"
            )
            # an invalid teardown callback prevents the resource from being added
            async with record_events(ctx) as events:
                with pytest.raises(TypeError, match="^callback must be a callable$"):
                    add(2.5, "new", teardown_callback="notcallable")

                assert ctx.get_resources(float) == {}
                add(2.5, "new", teardown_callback=lambda: teardowns.append("new"))
                add("s", "other", teardown_callback=lambda: teardowns.append("other"))

            assert summarize(events) == [
                ((float,), "new", None, False),
                ((str,), "other", None, False),
            ]
            assert teardowns == []

        assert teardowns == ["other", "new"]

    @pytest.mark.parametrize(
        "name", ["", " ", "a b", "a-b", "a.b", "x\n", "é!"], ids=repr
    )
    async def test_bad_names(self, use_shortcut: bool, name: str) -> None:
        async with Context() as ctx:
            with pytest.raises(ValueError) as exc:
                adder(ctx, use_shortcut)(1, name)

            assert str(exc.value) == NAME_ERROR
            with pytest.raises(ValueError) as exc:
                factory_adder(ctx, use_shortcut)(lambda: 1, name, types=int)

            assert str(exc.value) == NAME_ERROR
            assert ctx.get_resources(int) == {}

    async def test_good_names_and_non_string_name(self, use_shortcut: bool) -> None:
        async with Context() as ctx:
            add = adder(ctx, use_shortcut)
            for name in ("a", "A_1", "_", "9", "ünïcode", "default"):
                add(1, name)

            assert sorted(ctx.get_resources(int)) == sorted(
                ["a", "A_1", "_", "9", "ünïcode", "default"]
            )
            with pytest.raises(TypeError):
                add(2.5, 5)

            with pytest.raises(TypeError):
                factory_adder(ctx, use_shortcut)(lambda: 1, None, types=int)

    async def test_conflict_reports_first_conflicting_type(
        self, use_shortcut: bool
    ) -> None:
        async with Context() as ctx:
            add = adder(ctx, use_shortcut)
            add(Derived(), "x", [Derived, Base])
            async with record_events(ctx) as events:
                with pytest.raises(ResourceConflict) as exc:
                    add(Derived(), "x", [object, Base, Derived])

                assert str(exc.value) == (
                    "this context already contains a resource of type "
                    f"{__name__}.Base using the name 'x'"
                )
                # Nothing was registered, not even for the non-conflicting type
                assert ctx.get_resources(object) == {}
                # Same types under a different name are fine
                add(Derived(), "y", [object, Base, Derived])

            assert summarize(events) == [((object, Base, Derived), "y", None, False)]

    async def test_state_and_context_errors(self, use_shortcut: bool) -> None:
        if use_shortcut:
            with pytest.raises(NoCurrentContext):
                add_resource(None, "bad name", "str")

            with pytest.raises(NoCurrentContext):
                add_resource_factory(lambda: 1, "bad name")

            return

        ctx = Context()
        # The state check precedes all argument validation
        with pytest.raises(RuntimeError, match="^this context has not been entered"):
            ctx.add_resource(None, "bad name", "str")

        with pytest.raises(RuntimeError, match="^this context has not been entered"):
            ctx.add_resource_factory(lambda: 1, "bad name")

        async with ctx:

            def teardown() -> None:
                # Resources can still be added while closing, factories cannot
                ctx.add_resource("late")
                with pytest.raises(RuntimeError, match="^this context is being torn"):
                    ctx.add_resource_factory(lambda: 1, "bad name")

                results.append(ctx.get_resource_nowait(str))

            results: list[str] = []
            ctx.add_teardown_callback(teardown)

        assert results == ["late"]
        with pytest.raises(RuntimeError, match="^this context has already been closed"):
            ctx.add_resource(None, "bad name", "str")

        with pytest.raises(RuntimeError, match="^this context has already been closed"):
            ctx.add_resource_factory(lambda: 1, "bad name")


class TestAddResourceFactory:
    async def test_explicit_types(self, use_shortcut: bool) -> None:
        def factory() -> str:  # the annotation is ignored when types are given
            return "value"

        async with Context() as ctx:
            add = factory_adder(ctx, use_shortcut)
            async with record_events(ctx) as events:
                add(factory, "single", types=int)
                add(factory, "lst", types=[int, float], description="desc")
                add(factory, "tpl", types=(Base,))
                add(factory, "generic", types=list[int])
                add(factory, "odd", types=NotASequence())
                add(factory, "strs", types=["notatype"])  # not validated

            expected = [
                ((int,), "single", None, True),
                ((int, float), "lst", "desc", True),
                ((Base,), "tpl", None, True),
                ((list[int],), "generic", None, True),
                None,
                (("notatype",), "strs", None, True),
            ]
            actual = summarize(events)
            assert isinstance(actual[4][0][0], NotASequence)
            assert actual[4][1:] == ("odd", None, True)
            actual[4] = None  # type: ignore[call-overload]
            assert actual == expected
            assert all(type(e.resource_types) is tuple for e in events)
            assert ctx.get_resource_nowait(float, "lst") == "value"
            assert ctx.get_resource_nowait(list[int], "generic") == "value"

    async def test_types_from_annotation(self, use_shortcut: bool) -> None:
        def plain() -> Derived:
            return Derived()

        def union() -> Union[int, float]:  # noqa: UP007
            return 1

        def optional() -> Optional[str]:  # noqa: UP007
            return "s"

        def generic() -> list[int]:
            return [1]

        def forward() -> "Base":  # noqa: UP037
            return Base()

        async with Context() as ctx:
            add = factory_adder(ctx, use_shortcut)
            async with record_events(ctx) as events:
                add(plain)
                add(union, "u", types=())  # empty types -> use the annotation
                add(generic, "g", types=[])
                add(forward, "f")
                # Optional[str] is split to (str, NoneType); NoneType is not None
                add(optional, "o")

            assert summarize(events) == [
                ((Derived,), "default", None, True),
                ((int, float), "u", None, True),
                ((list[int],), "g", None, True),
                ((Base,), "f", None, True),
                ((str, type(None)), "o", None, True),
            ]
            assert ctx.get_resource_nowait(float, "u") == 1
            assert ctx.get_resource_nowait(type(None), "o") == "s"

    @pytest.mark.skipif(sys.version_info < (3, 10), reason="requires PEP 604")
    async def test_pep604_union_annotation(self, use_shortcut: bool) -> None:
        def union() -> int | str:
            return 1

        def optional() -> bytes | None:
            return b""

        async with Context() as ctx:
            add = factory_adder(ctx, use_shortcut)
            async with record_events(ctx) as events:
                add(union)
                add(optional, "o")

            assert summarize(events) == [
                ((int, str), "default", None, True),
                ((bytes, type(None)), "o", None, True),
            ]

    async def test_missing_or_unresolvable_annotation(self, use_shortcut: bool) -> None:
        def no_hint():  # type: ignore[no-untyped-def]
            return 1

        def only_params(x: int = 1):  # type: ignore[no-untyped-def]
            return x

        def bad_forward() -> "DoesNotExist":  # type: ignore[name-defined]  # noqa: F821, UP037
            return 1

        async with Context() as ctx:
            add = factory_adder(ctx, use_shortcut)
            async with record_events(ctx) as events:
                for func in (no_hint, only_params, lambda: 1):
                    with pytest.raises(ValueError) as exc:
                        add(func)

                    assert str(exc.value) == (
                        "no resource types specified, and the factory callback does "
                        "not have a return type hint"
                    )
                    assert exc.value.__cause__ is None
                    assert exc.value.__suppress_context__ is True

                with pytest.raises(NameError):
                    add(bad_forward)

                # get_type_hints() rejects objects that are not callables/classes
                with pytest.raises(TypeError):
                    add(5)

                # ...but the name is validated before that
                with pytest.raises(ValueError) as exc:
                    add(5, "bad name")

                assert str(exc.value) == NAME_ERROR

            assert events == []

    async def test_none_type_and_conflicts(self, use_shortcut: bool) -> None:
        async with Context() as ctx:
            add = factory_adder(ctx, use_shortcut)
            add(lambda: 1, types=[int, float])
            async with record_events(ctx) as events:
                # None check precedes the conflict check
                with pytest.raises(TypeError, match="^None is not a valid resource"):
                    add(lambda: 1, types=[int, None])

                with pytest.raises(ResourceConflict) as exc:
                    add(lambda: 1, types=[str, float, int])

                assert str(exc.value) == (
                    "this context already contains a resource factory for the type "
                    "float"
                )
                assert ctx.get_resource_nowait(str, optional=True) is None
                # A static resource with the same type/name is not a conflict
                ctx.add_resource(5)
                add(lambda: "s", "other", types=[str, float, int])

            assert summarize(events) == [
                ((int,), "default", None, False),
                ((str, float, int), "other", None, True),
            ]
            assert ctx.get_resource_nowait(int) == 5
            assert ctx.get_resource_nowait(float) == 1
            assert ctx.get_resource_nowait(float, "other") == "s"

    async def test_factories_inherited_by_child(self, use_shortcut: bool) -> None:
        async with Context() as parent:
            factory_adder(parent, use_shortcut)(lambda: object(), types=object)
            async with Context() as child:
                with pytest.raises(ResourceConflict):
                    factory_adder(child, use_shortcut)(lambda: object(), types=object)

                factory_adder(child, use_shortcut)(lambda: "c", "c", types=str)
                assert child.get_resource_nowait(str, "c") == "c"

            assert parent.get_resource_nowait(str, "c", optional=True) is None
