"""
Behaviour check for refactoring 3 (consistent renaming of the private lifecycle
attributes/methods of ``Context``).

Since the renaming touches every place where the lifecycle state is read or written,
this check walks whole lifecycles (with nested contexts, re-entrant teardown callbacks,
the module level shortcut functions and ``context_teardown``) and asserts the complete
trace of observations.
"""

from __future__ import annotations

from collections.abc import AsyncGenerator
from typing import Any

import pytest
from anyio.lowlevel import checkpoint

from asphalt.core import (
    Context,
    add_resource,
    add_resource_factory,
    add_teardown_callback,
    context_teardown,
    current_context,
    get_resource,
    get_resource_nowait,
)

pytestmark = pytest.mark.anyio()


@pytest.fixture
def anyio_backend() -> str:
    return "asyncio"


def error_of(func: Any, *args: Any, **kwargs: Any) -> str | None:
    try:
        func(*args, **kwargs)
    except RuntimeError as exc:
        return str(exc)

    return None


async def test_full_lifecycle_trace_with_reentrant_teardown() -> None:
    trace: list[Any] = []
    generated: list[int] = []

    def int_factory() -> int:
        generated.append(len(generated) + 1)
        return generated[-1]

    async def async_str_factory() -> str:
        await checkpoint()
        return "made during teardown"

    ctx = Context()
    trace.append(("new", ctx.closed, error_of(ctx.add_resource, 1.0)))

    async def first_callback(exc: BaseException | None) -> None:
        trace.append(("first_callback", exc, ctx.closed))
        # Allowed during teardown: add_resource (with its own teardown callback),
        # get_resource(_nowait) incl. running factories registered earlier, and
        # add_teardown_callback. Not allowed: add_resource_factory.
        ctx.add_resource(
            b"late", "late", teardown_callback=lambda: trace.append("late_res_cb")
        )
        trace.append(ctx.get_resource_nowait(bytes, "late"))
        trace.append(ctx.get_resource_nowait(int))
        trace.append(await ctx.get_resource(str))
        trace.append(error_of(ctx.add_resource_factory, int_factory, "other"))
        ctx.add_teardown_callback(nested_callback)
        await checkpoint()
        trace.append("first_callback_done")

    def nested_callback() -> None:
        # Runs after first_callback finished and after the late resource's callback
        # (both were added during teardown; last added runs first)
        trace.append(("nested_callback", ctx.closed))
        trace.append(ctx.get_resource_nowait(int))
        ctx.add_teardown_callback(lambda: trace.append("innermost"))

    async with ctx:
        trace.append(("open", ctx.closed))
        ctx.add_resource_factory(int_factory)
        ctx.add_resource_factory(async_str_factory, types=[str])
        ctx.add_teardown_callback(lambda: trace.append("oldest_callback"))
        ctx.add_teardown_callback(first_callback, pass_exception=True)
        trace.append(("still_open", ctx.closed))

    trace.append(("after", ctx.closed))
    trace.append(error_of(ctx.add_resource, 1.0))
    trace.append(error_of(ctx.add_resource_factory, int_factory, "x"))
    trace.append(error_of(ctx.get_resource_nowait, int))
    trace.append(error_of(ctx.add_teardown_callback, nested_callback))
    with pytest.raises(RuntimeError, match="^this context has already been closed$"):
        await ctx.get_resource(int)

    assert trace == [
        ("new", False, "this context has not been entered yet"),
        ("open", False),
        ("still_open", False),
        ("first_callback", None, True),
        b"late",
        1,
        "made during teardown",
        "this context is being torn down",
        "first_callback_done",
        ("nested_callback", True),
        1,
        "innermost",
        "late_res_cb",
        "oldest_callback",
        ("after", True),
        "this context has already been closed",
        "this context has already been closed",
        "this context has already been closed",
        "this context has already been closed",
    ]
    # The factory ran exactly once; the rejected calls did not invoke it
    assert generated == [1]


async def test_shortcut_functions_follow_current_context_lifecycle() -> None:
    trace: list[Any] = []

    @context_teardown
    async def start_service() -> AsyncGenerator[None, BaseException | None]:
        add_resource("service", "svc")
        exception = yield
        ctx = current_context()
        trace.append(("service_teardown", type(exception), ctx.closed))
        # Shortcuts act on the context being torn down
        trace.append(get_resource_nowait(str, "svc"))
        trace.append(error_of(add_resource_factory, lambda: 1, types=[int]))
        add_resource(2.5, "late_float")
        trace.append(await get_resource(float, "late_float"))

    with pytest.raises(ZeroDivisionError):
        async with Context() as root:
            async with Context() as inner:
                await start_service()
                add_teardown_callback(lambda: trace.append("inner_plain_cb"))
                trace.append(inner.get_resource_nowait(str, "svc"))
                trace.append(root.get_resource_nowait(str, "svc", optional=True))
                1 / 0

    assert trace == [
        "service",
        None,
        "inner_plain_cb",
        ("service_teardown", ZeroDivisionError, True),
        "service",
        "this context is being torn down",
        2.5,
    ]
    assert inner.closed and root.closed
    assert error_of(inner.add_resource, 1) == "this context has already been closed"
    assert error_of(root.add_resource, 1) == "this context has already been closed"


async def test_child_bookkeeping_across_several_children() -> None:
    async with Context() as outer:
        parent = Context()
        await parent.__aenter__()
        first = Context(parent)
        second = Context(parent)
        grandchild = Context(first)
        await first.__aenter__()
        await grandchild.__aenter__()
        await second.__aenter__()

        # A never-entered child does not count as open
        Context(parent)

        with pytest.raises(RuntimeError) as exc_info:
            await parent.__aexit__(None, None, None)

        # Only direct children are counted
        assert str(exc_info.value).endswith("still has 2 active child context(s)")
        assert parent.closed
        assert [first.closed, second.closed, grandchild.closed] == [False] * 3

        # Leaving "first" with its child open is reported too
        with pytest.raises(RuntimeError) as exc_info:
            await first.__aexit__(None, None, None)

        assert str(exc_info.value) == (
            f"Context stack corruption detected: context {id(first):x} still has "
            f"1 active child context(s)"
        )
        assert first.closed

        # Children exiting after their (closed) parent works and closes them
        await second.__aexit__(None, None, None)
        await grandchild.__aexit__(None, None, None)
        assert second.closed and grandchild.closed
        for ctx in (parent, first, second, grandchild):
            assert error_of(ctx.add_teardown_callback, print) == (
                "this context has already been closed"
            )

        # "outer" has no open children left (parent deregistered itself), so it exits
        # without complaint
        assert not outer.closed

    assert outer.closed


async def test_properly_nested_children_leave_no_trace() -> None:
    async with Context() as root:
        for _ in range(3):
            async with Context() as child:
                assert child.parent is root
                async with Context() as grandchild:
                    assert grandchild.parent is child

                assert grandchild.closed and not child.closed

            assert child.closed and not root.closed
            assert current_context() is root

    assert root.closed
