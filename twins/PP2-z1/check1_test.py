"""
Behaviour checks for refactoring 1 (annotation resolution loop and the final choice of
the wrapper in ``inject``).

Runs against the public API only and must pass on the unchanged source as well as on
the refactored one.
"""

from __future__ import annotations

import inspect
import sys
import warnings
from typing import Any, List, Optional, Union

import pytest

from asphalt.core import (
    Context,
    NoCurrentContext,
    ResourceNotFound,
    add_resource,
    inject,
    resource,
)

pytestmark = pytest.mark.anyio()

UNION_MESSAGE = (
    "Unions are only valid with dependency injection when there are exactly two "
    "items and other item is None"
)


@pytest.fixture
def anyio_backend() -> str:
    return "asyncio"


class TestWrapperSelection:
    def test_sync_function_gets_sync_wrapper(self) -> None:
        def func(a: int, b: str = resource()) -> str:
            """Docstring of func."""
            return b * a

        func.marker = "custom attribute"  # type: ignore[attr-defined]
        wrapper = inject(func)
        assert wrapper is not func
        assert not inspect.iscoroutinefunction(wrapper)
        assert wrapper.__wrapped__ is func  # type: ignore[attr-defined]
        assert wrapper.__name__ == "func"
        assert wrapper.__qualname__ == func.__qualname__
        assert wrapper.__doc__ == "Docstring of func."
        assert wrapper.__module__ == __name__
        assert wrapper.marker == "custom attribute"  # type: ignore[attr-defined]
        assert str(inspect.signature(wrapper)) == str(inspect.signature(func))

    def test_async_function_gets_async_wrapper(self) -> None:
        async def func(a: int, *, b: str = resource("alt")) -> str:
            return b * a

        wrapper = inject(func)
        assert wrapper is not func
        assert inspect.iscoroutinefunction(wrapper)
        assert wrapper.__wrapped__ is func  # type: ignore[attr-defined]
        assert wrapper.__qualname__ == func.__qualname__

    @pytest.mark.parametrize("is_async", [False, True], ids=["sync", "async"])
    def test_nothing_to_inject(self, is_async: bool) -> None:
        if is_async:

            async def func(a: int, b: str = "x") -> None:
                pass

        else:

            def func(a: int, b: str = "x") -> None:  # type: ignore[misc]
                pass

        with warnings.catch_warnings(record=True) as caught:
            warnings.simplefilter("always")
            result = inject(func)

        assert result is func
        assert not hasattr(result, "__wrapped__")
        assert len(caught) == 1
        assert caught[0].category is UserWarning
        assert str(caught[0].message) == (
            f"{__name__}.TestWrapperSelection.test_nothing_to_inject.<locals>.func "
            f"does not have any injectable resources declared"
        )
        assert caught[0].filename.endswith("_context.py")

    def test_no_warning_when_injectable(self) -> None:
        def func(b: str = resource()) -> None:
            pass

        with warnings.catch_warnings():
            warnings.simplefilter("error")
            inject(func)

    def test_warning_as_error_propagates(self) -> None:
        def func() -> None:
            pass

        with warnings.catch_warnings():
            warnings.simplefilter("error")
            with pytest.raises(UserWarning, match="does not have any injectable"):
                inject(func)

    def test_coroutine_returning_sync_function_is_sync(self) -> None:
        # A plain function returning a coroutine is NOT a coroutine function, so the
        # synchronous wrapper (get_resource_nowait) is used
        async def inner(b: str) -> str:
            return b

        def func(b: str = resource()) -> Any:
            return inner(b)

        wrapper = inject(func)
        assert not inspect.iscoroutinefunction(wrapper)


class TestAnnotationResolution:
    async def test_plain_annotations(self) -> None:
        @inject
        def func(a: int, b: str = resource(), *, c: int = resource("num")) -> Any:
            return a, b, c

        async with Context():
            add_resource("text")
            add_resource(7, "num")
            assert func(1) == (1, "text", 7)

    @pytest.mark.parametrize("is_async", [False, True], ids=["sync", "async"])
    async def test_optional_annotations(self, is_async: bool) -> None:
        if is_async:

            @inject
            async def func(
                a: Optional[str] = resource(),
                b: Union[None, int] = resource(),
                c: Union[bytes, None] = resource("x"),
                d: float = resource(),
            ) -> Any:
                return a, b, c, d

        else:

            @inject
            def func(  # type: ignore[misc]
                a: Optional[str] = resource(),
                b: Union[None, int] = resource(),
                c: Union[bytes, None] = resource("x"),
                d: float = resource(),
            ) -> Any:
                return a, b, c, d

        async def call() -> Any:
            return (await func()) if is_async else func()

        async with Context():
            with pytest.raises(ResourceNotFound) as exc:
                await call()

            assert exc.value.type is float
            assert exc.value.name == "default"
            add_resource(1.5)
            assert await call() == (None, None, None, 1.5)
            add_resource("s")
            add_resource(b"wrong name")
            add_resource(b"right", "x")
            assert await call() == ("s", None, b"right", 1.5)
            add_resource(3)
            assert await call() == ("s", 3, b"right", 1.5)

    @pytest.mark.skipif(sys.version_info < (3, 10), reason="Requires Python 3.10+")
    async def test_pep604_annotations(self) -> None:
        @inject
        def func(a: "str | None" = resource(), b: "None | int" = resource()) -> Any:
            return a, b

        async with Context():
            assert func() == (None, None)
            add_resource(5)
            assert func() == (None, 5)
            add_resource("s")
            assert func() == ("s", 5)

    async def test_generic_alias_is_not_a_union(self) -> None:
        # A parametrized generic has an origin, but is no union: it is looked up as is
        @inject
        def func(a: List[int] = resource()) -> Any:
            return a

        async with Context():
            with pytest.raises(ResourceNotFound) as exc:
                func()

            assert exc.value.type == List[int]
            add_resource([1, 2], types=[List[int]])  # type: ignore[list-item]
            assert func() == [1, 2]

    @pytest.mark.parametrize(
        "annotation",
        [
            pytest.param(Union[str, int, None], id="three_items"),
            pytest.param(Union[str, int], id="no_none"),
            pytest.param(Optional[Union[str, bytes]], id="optional_of_union"),
        ],
    )
    @pytest.mark.parametrize("is_async", [False, True], ids=["sync", "async"])
    async def test_bad_union(self, annotation: Any, is_async: bool) -> None:
        calls: list[Any] = []
        if is_async:

            async def func(
                first: str = resource(),
                bad: annotation = resource(),
                last: Optional[int] = resource(),
            ) -> None:
                calls.append((first, bad, last))

        else:

            def func(  # type: ignore[misc]
                first: str = resource(),
                bad: annotation = resource(),
                last: Optional[int] = resource(),
            ) -> None:
                calls.append((first, bad, last))

        wrapper = inject(func)

        async def call() -> Any:
            return (await wrapper()) if is_async else wrapper()

        # The error is raised before the current context is looked up
        with pytest.raises(TypeError) as exc:
            await call()

        assert str(exc.value) == UNION_MESSAGE

        # ...and the resolution is attempted again (and fails again) on every call
        async with Context():
            add_resource("s")
            add_resource(1)
            for _ in range(2):
                with pytest.raises(TypeError) as exc:
                    await call()

                assert str(exc.value) == UNION_MESSAGE

        assert calls == []
        # The markers up to the failing one have been filled in; the later ones not
        defaults = func.__defaults__
        assert defaults is not None
        assert defaults[0].cls is str
        assert defaults[0].optional is False
        assert defaults[1].cls == annotation
        assert defaults[1].optional is False
        assert defaults[2].optional is False
        with pytest.raises(AttributeError, match="did you forget to add the @inject"):
            defaults[2].cls

    async def test_forward_reference_to_local_class(self) -> None:
        class LocalResource:
            pass

        @inject
        def func(res: "LocalResource" = resource()) -> Any:
            return res

        @inject
        async def afunc(res: "Optional[LocalResource]" = resource()) -> Any:
            return res

        instance = LocalResource()
        async with Context():
            assert await afunc() is None
            add_resource(instance)
            assert func() is instance
            assert await afunc() is instance

    async def test_forward_reference_defined_after_decoration(self) -> None:
        @inject
        def func(res: "LaterResource" = resource()) -> Any:  # noqa: F821
            return res

        class LaterResource:
            pass

        # The locals of the decorating frame were captured when @inject was applied,
        # which is before the class statement, so the name cannot be resolved
        async with Context():
            add_resource(LaterResource())
            for _ in range(2):
                with pytest.raises(NameError, match="LaterResource"):
                    func()

    async def test_unresolvable_reference_reported_before_missing_context(
        self,
    ) -> None:
        @inject
        def func(res: "DoesNotExist" = resource()) -> Any:  # type: ignore[name-defined]  # noqa: F821
            return res

        @inject
        async def afunc(res: "DoesNotExist" = resource()) -> Any:  # type: ignore[name-defined]  # noqa: F821
            return res

        with pytest.raises(NameError, match="DoesNotExist"):
            func()

        with pytest.raises(NameError, match="DoesNotExist"):
            await afunc()

    async def test_missing_context_reported_after_resolution(self) -> None:
        @inject
        def func(res: str = resource()) -> Any:
            return res

        @inject
        async def afunc(res: Optional[str] = resource()) -> Any:
            return res

        for _ in range(2):
            with pytest.raises(NoCurrentContext):
                func()

            with pytest.raises(NoCurrentContext):
                await afunc()

        # The annotations were resolved by the failed calls nevertheless
        assert func.__wrapped__.__defaults__[0].cls is str  # type: ignore[attr-defined]
        dependency = afunc.__wrapped__.__defaults__[0]  # type: ignore[attr-defined]
        assert dependency.cls is str
        assert dependency.optional is True

    async def test_annotations_resolved_once(self) -> None:
        # After the first successful resolution, later changes of the annotations are
        # not picked up
        def func(res: str = resource()) -> Any:
            return res

        wrapper = inject(func)
        async with Context():
            add_resource("text")
            add_resource(5)
            assert wrapper() == "text"
            func.__annotations__["res"] = int
            assert wrapper() == "text"

    async def test_annotations_resolved_lazily(self) -> None:
        # Nothing is resolved at decoration time
        def func(res: str = resource()) -> Any:
            return res

        wrapper = inject(func)
        func.__annotations__["res"] = int
        async with Context():
            add_resource("text")
            add_resource(5)
            assert wrapper() == 5
