"""
Property C04: factory-generated resources are per-context singletons of the requesting
context.  These checks go through the public API only and must pass both on the
unchanged source and with the evolution applied.
"""

from __future__ import annotations

import logging
from typing import Optional, Union

import anyio
import pytest
from anyio.lowlevel import checkpoint

from asphalt.core import (
    AsyncResourceError,
    Context,
    ResourceNotFound,
    add_resource_factory,
    current_context,
    get_resource,
    get_resource_nowait,
    get_resources,
    inject,
    resource,
)

pytestmark = pytest.mark.anyio


@pytest.fixture
def anyio_backend() -> str:
    return "asyncio"


class Obj:
    """A resource value with identity semantics."""

    def __init__(self, owner: Context) -> None:
        self.owner = owner


class Base:
    pass


class Derived(Base):
    pass


class CallableFactory:
    """A factory that is a callable *instance* (has no __qualname__/__name__)."""

    def __init__(self) -> None:
        self.calls: list[Context] = []

    def __call__(self) -> Derived:
        self.calls.append(current_context())
        return Derived()


@pytest.fixture(params=[False, True], ids=["quiet", "debuglog"])
def debug_logging(request, caplog):
    # The property must hold regardless of the logging configuration
    if request.param:
        caplog.set_level(logging.DEBUG, logger="asphalt.core")
    else:
        caplog.set_level(logging.ERROR, logger="asphalt.core")
    return request.param


async def test_sync_factory_singleton_all_types_all_apis(debug_logging) -> None:
    calls: list[Context] = []

    def factory() -> Union[Base, Derived]:  # noqa: UP007
        calls.append(current_context())
        return Derived()

    @inject
    def sync_injected(*, a: Base = resource(), b: Derived = resource()):
        return a, b

    @inject
    async def async_injected(
        *, a: Base = resource(), b: Optional[Derived] = resource()  # noqa: UP007
    ):
        return a, b

    async with Context() as ctx:
        ctx.add_resource_factory(factory)
        assert calls == []
        first = ctx.get_resource_nowait(Base)
        assert isinstance(first, Derived)
        assert calls == [ctx]
        assert ctx.get_resource_nowait(Derived) is first
        assert await ctx.get_resource(Base) is first
        assert await ctx.get_resource(Derived, optional=True) is first
        assert get_resource_nowait(Base) is first
        assert await get_resource(Derived) is first
        assert sync_injected() == (first, first)
        assert await async_injected() == (first, first)
        assert get_resources(Base) == {"default": first}
        assert ctx.get_resources(Derived) == {"default": first}
        assert calls == [ctx]


@pytest.mark.parametrize("trigger", ["nowait", "async", "inject_sync", "inject_async"])
async def test_generated_resource_belongs_to_requesting_context(
    trigger: str, debug_logging
) -> None:
    calls: list[Context] = []

    def factory() -> Obj:
        ctx = current_context()
        calls.append(ctx)
        return Obj(ctx)

    @inject
    def via_sync(*, o: Obj = resource()) -> Obj:
        return o

    @inject
    async def via_async(*, o: Obj = resource()) -> Obj:
        return o

    async def lookup() -> Obj:
        if trigger == "nowait":
            return get_resource_nowait(Obj)
        elif trigger == "async":
            return await get_resource(Obj)
        elif trigger == "inject_sync":
            return via_sync()
        else:
            return await via_async()

    async with Context() as root:
        root.add_resource_factory(factory)
        async with Context() as early_child:
            async with Context() as grandchild:
                gc_obj = await lookup()
                assert gc_obj.owner is grandchild
                assert await lookup() is gc_obj
                # Not visible in the ancestors
                assert early_child.get_resources(Obj) == {}
                assert root.get_resources(Obj) == {}

            child_obj = await lookup()
            assert child_obj is not gc_obj
            assert child_obj.owner is early_child
            assert root.get_resources(Obj) == {}

        root_obj = await lookup()
        assert root_obj.owner is root
        assert root_obj not in (gc_obj, child_obj)

        # Contexts created afterwards do not inherit the generated object
        async with Context() as late_child:
            assert late_child.get_resources(Obj) == {}
            late_obj = await lookup()
            assert late_obj.owner is late_child
            assert late_obj is not root_obj
            assert late_child.get_resource_nowait(Obj) is late_obj
            assert await late_child.get_resource(Obj) is late_obj

        assert root.get_resource_nowait(Obj) is root_obj
        assert await root.get_resource(Obj) is root_obj
        assert calls == [grandchild, early_child, root, late_child]


async def test_types_already_taken_are_not_replaced(debug_logging) -> None:
    calls = 0

    def factory() -> Union[Base, Derived, Obj]:  # noqa: UP007
        nonlocal calls
        calls += 1
        return Derived()

    async with Context() as root:
        root.add_resource_factory(factory)
        preexisting = Derived()
        root.add_resource(preexisting, types=[Derived])
        async with Context() as child:
            # Derived is inherited from the parent as a regular resource
            assert child.get_resource_nowait(Derived) is preexisting
            assert calls == 0
            generated = await child.get_resource(Base)
            assert generated is not preexisting
            assert calls == 1
            assert child.get_resource_nowait(Obj) is generated
            assert await child.get_resource(Obj) is generated
            assert child.get_resource_nowait(Derived) is preexisting
            assert await child.get_resource(Derived) is preexisting
            assert child.get_resource_nowait(Base) is generated
            assert calls == 1

        assert root.get_resources(Base) == {}
        assert root.get_resources(Obj) == {}


async def test_named_factories_and_callable_instance(debug_logging) -> None:
    fact_a = CallableFactory()
    fact_b = CallableFactory()
    async with Context() as ctx:
        ctx.add_resource_factory(fact_a, "a", types=[Base, Derived])
        add_resource_factory(fact_b, "b", types=Derived, description="the b one")
        a = await ctx.get_resource(Derived, "a")
        b = ctx.get_resource_nowait(Derived, "b")
        assert a is not b
        assert ctx.get_resource_nowait(Base, "a") is a
        assert await ctx.get_resource(Derived, "b") is b
        assert ctx.get_resource_nowait(Base, "b", optional=True) is None
        with pytest.raises(ResourceNotFound):
            await ctx.get_resource(Base, "b")

        assert fact_a.calls == [ctx]
        assert fact_b.calls == [ctx]
        assert ctx.get_resources(Derived) == {"a": a, "b": b}


async def test_async_factory(debug_logging) -> None:
    calls: list[Context] = []

    async def factory() -> Union[Base, Derived]:  # noqa: UP007
        calls.append(current_context())
        await checkpoint()
        return Derived()

    @inject
    def sync_injected(*, a: Base = resource()) -> Base:
        return a

    @inject
    async def async_injected(*, a: Base = resource()) -> Base:
        return a

    async with Context() as root:
        root.add_resource_factory(factory)
        async with Context() as child:
            # The sync API refuses, and registers nothing
            for _ in range(2):
                with pytest.raises(AsyncResourceError):
                    child.get_resource_nowait(Base)
                with pytest.raises(AsyncResourceError):
                    child.get_resource_nowait(Derived, optional=True)
                with pytest.raises(AsyncResourceError):
                    sync_injected()

            assert child.get_resources(Base) == {}
            assert child.get_resources(Derived) == {}
            assert root.get_resources(Base) == {}
            assert calls == []

            generated = await async_injected()
            assert isinstance(generated, Derived)
            assert calls == [child]
            # Now the sync API returns the already generated one
            assert child.get_resource_nowait(Base) is generated
            assert child.get_resource_nowait(Derived) is generated
            assert sync_injected() is generated
            assert await child.get_resource(Derived) is generated
            assert calls == [child]
            assert root.get_resources(Base) == {}
            with pytest.raises(AsyncResourceError):
                root.get_resource_nowait(Base)

        root_generated = await root.get_resource(Derived)
        assert root_generated is not generated
        assert root.get_resource_nowait(Base) is root_generated
        assert calls == [child, root]


async def test_async_resource_error_then_sync_factory_in_child(debug_logging) -> None:
    """A sync factory for another type is unaffected by a failed sync lookup."""

    async def afactory() -> Base:
        return Base()

    def sfactory() -> Obj:
        return Obj(current_context())

    async with Context() as ctx:
        ctx.add_resource_factory(afactory)
        ctx.add_resource_factory(sfactory)
        with pytest.raises(AsyncResourceError):
            ctx.get_resource_nowait(Base)

        obj = ctx.get_resource_nowait(Obj)
        assert obj.owner is ctx
        assert ctx.get_resources(Base) == {}
        base = await ctx.get_resource(Base)
        assert ctx.get_resource_nowait(Base) is base
        assert await ctx.get_resource(Obj) is obj


async def test_concurrent_lookups_from_several_tasks(debug_logging) -> None:
    calls: list[Context] = []

    def factory() -> Union[Base, Derived]:  # noqa: UP007
        calls.append(current_context())
        return Derived()

    results: dict[int, list[object]] = {}

    async def worker(ctx: Context, index: int) -> None:
        found: list[object] = []
        for round_ in range(3):
            if (index + round_) % 3 == 0:
                found.append(ctx.get_resource_nowait(Base))
            elif (index + round_) % 3 == 1:
                found.append(await ctx.get_resource(Derived))
            else:
                found.append(await ctx.get_resource(Base, optional=True))

            await checkpoint()

        results[index] = found

    async with Context() as root:
        root.add_resource_factory(factory)
        async with Context() as child:
            async with anyio.create_task_group() as tg:
                for i in range(6):
                    tg.start_soon(worker, child, i)

            everything = [obj for found in results.values() for obj in found]
            assert len(everything) == 18
            assert all(obj is everything[0] for obj in everything)
            assert calls == [child]
            assert root.get_resources(Base) == {}

        # Tasks racing in their own contexts each get their own object
        per_task: list[tuple[Context, object]] = []

        async def own_context_worker() -> None:
            async with Context() as own:
                await checkpoint()
                obj = await get_resource(Base)
                await checkpoint()
                assert get_resource_nowait(Derived) is obj
                per_task.append((own, obj))

        async with anyio.create_task_group() as tg:
            for _ in range(4):
                tg.start_soon(own_context_worker)

        assert len({id(obj) for _, obj in per_task}) == 4
        assert sorted(map(id, calls[1:])) == sorted(id(own) for own, _ in per_task)
        assert root.get_resources(Base) == {}


async def test_falsy_generated_object_is_cached_too(debug_logging) -> None:
    """A factory may legitimately produce a falsy object; it is still a singleton."""
    calls = 0

    def factory() -> list:
        nonlocal calls
        calls += 1
        return []

    async with Context() as ctx:
        ctx.add_resource_factory(factory)
        first = ctx.get_resource_nowait(list)
        assert first == []
        assert await ctx.get_resource(list) is first
        assert ctx.get_resource_nowait(list) is first
        assert calls == 1


async def test_lookup_while_closing(debug_logging) -> None:
    """Generation also works (once) from a teardown callback."""
    calls: list[Context] = []
    seen: list[object] = []

    def factory() -> Obj:
        calls.append(current_context())
        return Obj(current_context())

    async with Context() as root:
        root.add_resource_factory(factory)
        async with Context() as child:

            async def teardown() -> None:
                seen.append(child.get_resource_nowait(Obj))
                seen.append(await child.get_resource(Obj))

            child.add_teardown_callback(teardown)

        assert seen[0] is seen[1]
        assert calls == [child]
        assert root.get_resources(Obj) == {}


async def test_equal_but_distinct_generated_objects(debug_logging) -> None:
    """Identity, not equality, is what is promised: every context has its own object."""
    calls = 0

    def factory() -> Union[list, dict]:  # noqa: UP007
        nonlocal calls
        calls += 1
        return []

    async with Context() as root:
        root.add_resource_factory(factory, "things")
        root_list = await root.get_resource(list, "things")
        async with Context() as child:
            # A regular resource of one of the types, added in the child only
            own_dict: dict = {}
            child.add_resource(own_dict, "things", types=[dict])
            child_list = child.get_resource_nowait(list, "things")
            assert child_list == root_list
            assert child_list is not root_list
            assert child.get_resource_nowait(dict, "things") is own_dict
            assert await child.get_resource(list, "things") is child_list
            async with Context() as grandchild:
                # The regular resource is inherited, the generated one is not
                assert grandchild.get_resources(dict) == {"things": own_dict}
                assert grandchild.get_resources(list) == {}
                gc_list = await grandchild.get_resource(list, "things")
                assert gc_list is not child_list
                assert grandchild.get_resource_nowait(dict, "things") is own_dict

        assert root.get_resource_nowait(dict, "things") is root_list
        assert root.get_resource_nowait(list, "things") is root_list
        assert calls == 3
