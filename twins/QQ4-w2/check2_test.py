"""
Behaviour checks for refactoring 2 (``start_component`` argument validation helpers,
and the phases of ``_start_component``: error wrapping, child start-up tasks).
"""

from __future__ import annotations

import logging
from collections import UserDict
from typing import Any

import anyio
import pytest
from anyio import get_current_task, sleep
from pytest import LogCaptureFixture

from asphalt.core import (
    Component,
    ComponentStartError,
    Context,
    add_resource,
    add_teardown_callback,
    current_context,
    get_resource,
    get_resource_nowait,
    start_component,
)

pytestmark = pytest.mark.anyio()

events: list[str] = []


class Recorder(Component):
    def __init__(self, label: str = "root", fail_in: str | None = None) -> None:
        self.label = label
        self.fail_in = fail_in

    async def prepare(self) -> None:
        events.append(f"{self.label}.prepare")
        if self.fail_in == "prepare":
            raise RuntimeError(f"{self.label} broke")

    async def start(self) -> None:
        events.append(f"{self.label}.start[{get_current_task().name}]")
        if self.fail_in == "start":
            raise KeyError(self.label)


@pytest.fixture(autouse=True)
def clear_events() -> None:
    events.clear()


async def test_no_context_checked_before_config() -> None:
    # Both arguments are bad; the missing context is reported first
    with pytest.raises(
        RuntimeError, match=r"^start_component\(\) requires an active Asphalt context$"
    ) as exc_info:
        await start_component(Component, "bad")  # type: ignore[call-overload]

    assert exc_info.value.__cause__ is None
    assert exc_info.value.__suppress_context__


@pytest.mark.parametrize("config", ["foo", 5, ("a", "b"), frozenset()])
async def test_bad_config(config: Any) -> None:
    async with Context():
        with pytest.raises(
            TypeError,
            match=r"^config must be a dict \(or any other mutable mapping\) or None$",
        ):
            await start_component(Recorder, config)

    assert events == []


async def test_config_variants_accepted() -> None:
    async with Context():
        assert isinstance(await start_component(Recorder), Recorder)
        assert isinstance(await start_component(Recorder, None), Recorder)
        component = await start_component(Recorder, UserDict({"label": "ud"}))
        assert component.label == "ud"
        # An explicit "type" key in the config overrides the positional argument, and
        # the caller's dict itself is left alone
        config = {"type": Recorder, "label": "cfg"}
        component = await start_component(Component, config)
        assert type(component) is Recorder and component.label == "cfg"
        assert config == {"type": Recorder, "label": "cfg"}


async def test_order_and_task_names(caplog: LogCaptureFixture) -> None:
    class Root(Recorder):
        def __init__(self) -> None:
            super().__init__("root")
            self.add_component("a", Recorder, label="a")
            self.add_component("b/res", Recorder, label="b")

    caplog.set_level(logging.DEBUG, "asphalt.core")
    async with Context():
        root_task = get_current_task().name
        root = await start_component(Root, timeout=None)
        with pytest.raises(RuntimeError, match="child components cannot be added"):
            root.add_component("late", Recorder)

    assert events[0] == "root.prepare"
    assert events[-1] == f"root.start[{root_task}]"
    # The order in which sibling tasks get to run is up to the backend
    assert sorted(events[1:-1]) == [
        "a.prepare",
        f"a.start[Starting component a ({__name__}.Recorder)]",
        "b.prepare",
        f"b.start[Starting component b/res ({__name__}.Recorder)]",
    ]
    assert events.index("a.prepare") < events.index(
        f"a.start[Starting component a ({__name__}.Recorder)]"
    )
    messages = [m for m in caplog.messages if not m.startswith("Creat")]
    assert messages[:3] == [
        "Calling prepare() of the root component",
        "Returned from prepare() of the root component",
        "Starting the child components of the root component",
    ]
    assert messages[-2:] == [
        "Calling start() of the root component",
        "Returned from start() of the root component",
    ]
    assert sorted(messages[3:-2]) == sorted(
        f"{verb} {method}() of component '{alias}'"
        for verb in ("Calling", "Returned from")
        for method in ("prepare", "start")
        for alias in ("a", "b/res")
    )
    records = [r for r in caplog.records if r.getMessage() in messages]
    assert {r.msg for r in records} == {
        "Calling prepare() of %s",
        "Returned from prepare() of %s",
        "Starting the child components of %s",
        "Calling start() of %s",
        "Returned from start() of %s",
    }


async def test_unimplemented_methods_are_skipped(caplog: LogCaptureFixture) -> None:
    class OnlyStart(Component):
        async def start(self) -> None:
            pass

    class OnlyPrepare(Component):
        async def prepare(self) -> None:
            pass

    class Inherits(OnlyPrepare):
        pass

    caplog.set_level(logging.DEBUG, "asphalt.core")
    async with Context():
        await start_component(
            Component,
            {"components": {"s": {"type": OnlyStart}, "p": {"type": Inherits}}},
        )

    calls = [m for m in caplog.messages if m.startswith("Calling")]
    assert sorted(calls) == [
        "Calling prepare() of component 'p'",
        "Calling start() of component 's'",
    ]


@pytest.mark.parametrize(
    "fail_in, phase, cause_type, cause_str",
    [
        ("prepare", "preparing", RuntimeError, "RuntimeError: kid broke"),
        ("start", "starting", KeyError, "KeyError: 'kid'"),
    ],
)
async def test_child_error_is_wrapped(
    fail_in: str, phase: str, cause_type: type, cause_str: str
) -> None:
    torn_down: list[BaseException | None] = []

    class Root(Component):
        def __init__(self) -> None:
            self.add_component("mid", Middle)

        async def start(self) -> None:
            pytest.fail("should not be reached")

    class Middle(Component):
        def __init__(self) -> None:
            self.add_component("kid", Recorder, label="kid", fail_in=fail_in)

        async def prepare(self) -> None:
            add_teardown_callback(torn_down.append, pass_exception=True)

    with pytest.raises(ComponentStartError) as exc_info:
        async with Context():
            await start_component(Root)

    exc = exc_info.value
    assert (exc.phase, exc.path, exc.component_type) == (phase, "mid.kid", Recorder)
    assert type(exc.__cause__) is cause_type
    assert exc.__suppress_context__
    assert str(exc) == (
        f"error {phase} component 'mid.kid' ({__name__}.Recorder): {cause_str}"
    )
    # The teardown callbacks were run with the wrapped error
    assert torn_down == [exc]


async def test_two_failing_children_give_exception_group() -> None:
    class Root(Component):
        def __init__(self) -> None:
            self.add_component("a", Recorder, label="a", fail_in="start")
            self.add_component("b", Recorder, label="b", fail_in="start")

    async with Context():
        with pytest.raises(BaseExceptionGroup) as exc_info:
            await start_component(Root)

    def leaves(exc: BaseException) -> list[BaseException]:
        if isinstance(exc, BaseExceptionGroup):
            return [leaf for sub in exc.exceptions for leaf in leaves(sub)]

        return [exc]

    excs = leaves(exc_info.value)
    assert all(isinstance(e, ComponentStartError) for e in excs)
    assert sorted(e.path for e in excs) == ["a", "b"]  # type: ignore[attr-defined]
    assert sorted(str(e.__cause__) for e in excs) == ["'a'", "'b'"]


async def test_base_exceptions_are_not_wrapped() -> None:
    class Exits(Component):
        async def start(self) -> None:
            raise SystemExit(3)

    async with Context():
        with pytest.raises(SystemExit) as exc_info:
            await start_component(Exits, timeout=None)

    assert exc_info.value.code == 3


async def test_cancellation_is_not_wrapped() -> None:
    states: list[str] = []

    class Waits(Component):
        async def prepare(self) -> None:
            try:
                await sleep(10)
            except BaseException as exc:
                states.append(type(exc).__name__)
                raise

    async with Context():
        with anyio.move_on_after(0.05) as scope:
            await start_component(Waits, timeout=None)

        assert scope.cancelled_caught

    assert len(states) == 1 and "Cancel" in states[0]

    # The same via the start-up timeout
    states.clear()
    async with Context():
        with pytest.raises(TimeoutError, match="^timeout starting component tree$"):
            await start_component(Waits, timeout=0.05)

    assert len(states) == 1 and "Cancel" in states[0]


async def test_default_resource_name_only_in_start() -> None:
    class Both(Component):
        async def prepare(self) -> None:
            add_resource(1)

        async def start(self) -> None:
            add_resource("s")
            assert await get_resource(int) == 1

    async with Context():
        await start_component(Component, {"components": {"x/named": {"type": Both}}})
        assert get_resource_nowait(int) == 1
        assert get_resource_nowait(str, "named") == "s"
        assert get_resource_nowait(str, optional=True) is None


async def test_child_waits_for_sibling_resource() -> None:
    class Provider(Component):
        async def start(self) -> None:
            await sleep(0.05)
            add_resource(3.5)

    class Consumer(Component):
        async def start(self) -> None:
            add_resource(str(await get_resource(float)))
            assert type(current_context()).__name__ == "ComponentContext"

    class Root(Component):
        def __init__(self) -> None:
            self.add_component("consumer", Consumer)
            self.add_component("provider", Provider)

    async with Context():
        await start_component(Root, timeout=2)
        assert get_resource_nowait(str) == "3.5"
