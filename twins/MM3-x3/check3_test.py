"""
Behaviour checks for refactoring 3 (``context_teardown``, ``current_context``, teardown
callback bookkeeping, service task naming).

Everything goes through the public API only. Must pass both on the unchanged source and
with refactor3.diff applied.
"""

from __future__ import annotations

import logging
import sys
from collections.abc import AsyncGenerator
from inspect import iscoroutinefunction
from typing import Any

import anyio
import pytest
from anyio import fail_after, get_cancelled_exc_class, sleep
from anyio.lowlevel import checkpoint

from asphalt.core import (
    Component,
    Context,
    NoCurrentContext,
    ResourceConflict,
    add_resource,
    add_teardown_callback,
    context_teardown,
    current_context,
    get_resource_nowait,
    start_background_task_factory,
    start_component,
    start_service_task,
)

if sys.version_info < (3, 11):
    from exceptiongroup import BaseExceptionGroup

pytestmark = pytest.mark.anyio


@pytest.fixture
def anyio_backend() -> str:
    return "asyncio"


async def test_two_phases_and_ordering() -> None:
    events: list[Any] = []

    @context_teardown
    async def start(label: str, *, flag: bool = False) -> AsyncGenerator[None, Any]:
        events.append(f"{label} setup (flag={flag}) in {current_context() is ctx}")
        await checkpoint()
        exception = yield
        await checkpoint()
        events.append(f"{label} teardown with {exception!r}")

    async with Context() as ctx:
        add_teardown_callback(lambda: events.append("plain callback 1"))
        assert await start("first") is None
        add_teardown_callback(lambda: events.append("plain callback 2"))
        assert await start("second", flag=True) is None
        events.append("body done")

    assert events == [
        "first setup (flag=False) in True",
        "second setup (flag=True) in True",
        "body done",
        "second teardown with None",
        "plain callback 2",
        "first teardown with None",
        "plain callback 1",
    ]


async def test_exception_is_sent_to_generator() -> None:
    received: list[Any] = []

    @context_teardown
    async def start() -> AsyncGenerator[None, Any]:
        exception = yield
        received.append(exception)

    error = RuntimeError("context body failure")
    with pytest.raises(RuntimeError) as exc_info:
        async with Context():
            await start()
            raise error

    assert exc_info.value is error
    assert received == [error]


async def test_wrapper_metadata() -> None:
    async def start(arg: int) -> AsyncGenerator[None, Any]:
        """Docstring."""
        yield

    wrapped = context_teardown(start)
    assert wrapped is not start
    assert wrapped.__wrapped__ is start  # type: ignore[attr-defined]
    assert wrapped.__name__ == "start"
    assert wrapped.__qualname__ == start.__qualname__
    assert wrapped.__doc__ == "Docstring."
    assert iscoroutinefunction(wrapped)


def test_rejects_other_callables() -> None:
    async def coroutine_function() -> None:
        pass

    def generator_function() -> Any:
        yield

    with pytest.raises(TypeError) as exc_info:
        context_teardown(coroutine_function)  # type: ignore[arg-type]

    assert str(exc_info.value) == (
        f"{__name__}.test_rejects_other_callables.<locals>.coroutine_function must be "
        f"an async generator function"
    )

    with pytest.raises(TypeError) as exc_info:
        context_teardown(generator_function)  # type: ignore[arg-type]

    assert str(exc_info.value) == (
        f"{__name__}.test_rejects_other_callables.<locals>.generator_function must be "
        f"an async generator function"
    )

    with pytest.raises(TypeError) as exc_info:
        context_teardown(len)  # type: ignore[arg-type]

    assert str(exc_info.value) == "len must be an async generator function"

    with pytest.raises(AttributeError):
        context_teardown(42)  # type: ignore[arg-type]


async def test_no_context_means_generator_is_never_created() -> None:
    created = False

    class Tracker:
        def __init__(self) -> None:
            nonlocal created
            created = True

    @context_teardown
    async def start(tracker: Any = None) -> AsyncGenerator[None, Any]:
        pytest.fail("must not run")
        yield

    with pytest.raises(NoCurrentContext):
        await start()

    with pytest.raises(NoCurrentContext):
        current_context()

    assert not created


async def test_bad_call_arguments() -> None:
    @context_teardown
    async def start(arg: int) -> AsyncGenerator[None, Any]:
        yield

    async with Context():
        with pytest.raises(TypeError, match="missing 1 required positional argument"):
            await start()  # type: ignore[call-arg]


async def test_generator_finishing_without_yield() -> None:
    events: list[str] = []

    @context_teardown
    async def start(do_yield: bool) -> AsyncGenerator[None, Any]:
        events.append("setup")
        if do_yield:
            yield
            events.append("teardown")

    async with Context():
        assert await start(False) is None
        events.append("body done")

    assert events == ["setup", "body done"]


async def test_failure_before_yield() -> None:
    events: list[str] = []

    @context_teardown
    async def start() -> AsyncGenerator[None, Any]:
        try:
            events.append("setup")
            await checkpoint()
            raise LookupError("setup failure")
            yield
        finally:
            events.append("finally")

    async with Context():
        with pytest.raises(LookupError, match="setup failure"):
            await start()

        events.append("after failure")

    assert events == ["setup", "finally", "after failure"]


async def test_cancellation_before_yield() -> None:
    events: list[str] = []

    @context_teardown
    async def start() -> AsyncGenerator[None, Any]:
        try:
            events.append("setup")
            await sleep(60)
            yield
            events.append("teardown")
        except get_cancelled_exc_class():
            events.append("cancelled")
            raise
        finally:
            events.append("finally")

    with fail_after(3):
        async with Context():
            with anyio.move_on_after(0.05) as scope:
                await start()

            assert scope.cancelled_caught
            events.append("after cancellation")

    assert events == ["setup", "cancelled", "finally", "after cancellation"]


async def test_second_yield_is_closed() -> None:
    events: list[Any] = []

    @context_teardown
    async def start() -> AsyncGenerator[None, Any]:
        try:
            first = yield
            events.append(("first", first))
            second = yield
            events.append(("second", second))
        except GeneratorExit:
            events.append("generator exit")
            raise
        finally:
            events.append("finally")

    async with Context():
        await start()

    assert events == [("first", None), "generator exit", "finally"]


async def test_generator_ignoring_close() -> None:
    @context_teardown
    async def start() -> AsyncGenerator[None, Any]:
        try:
            yield
            yield
        finally:
            yield

    with pytest.raises(BaseExceptionGroup) as exc_info:
        async with Context():
            await start()

    group = exc_info.value
    while isinstance(group, BaseExceptionGroup) and (
        group.message != "Exceptions were raised during context teardown"
    ):
        assert len(group.exceptions) == 1
        group = group.exceptions[0]

    assert isinstance(group, BaseExceptionGroup)
    assert len(group.exceptions) == 1
    assert isinstance(group.exceptions[0], RuntimeError)
    assert "ignored GeneratorExit" in str(group.exceptions[0])


async def test_failures_at_teardown_are_collected() -> None:
    events: list[str] = []

    @context_teardown
    async def start(label: str, fail: bool) -> AsyncGenerator[None, Any]:
        try:
            exception = yield
            events.append(f"{label} got {exception!r}")
            await checkpoint()
            if fail:
                raise ValueError(label)
        finally:
            events.append(f"{label} finally")

    original = KeyError("original")
    with pytest.raises(BaseExceptionGroup) as exc_info:
        async with Context():
            await start("a", True)
            await start("b", False)
            await start("c", True)
            raise original

    group = exc_info.value
    while group.message != "Exceptions were raised during context teardown":
        assert len(group.exceptions) == 1
        group = group.exceptions[0]  # type: ignore[assignment]

    assert [type(exc) for exc in group.exceptions] == [ValueError, ValueError]
    assert [str(exc) for exc in group.exceptions] == ["c", "a"]
    assert group.__cause__ is original
    assert events == [
        f"c got {original!r}",
        "c finally",
        f"b got {original!r}",
        "b finally",
        f"a got {original!r}",
        "a finally",
    ]


async def test_teardown_in_subcontext_and_resource_cleanup() -> None:
    events: list[str] = []

    class Service:
        def stop(self) -> None:
            events.append("service stopped")

    @context_teardown
    async def start() -> AsyncGenerator[None, Any]:
        service = Service()
        add_resource(service)
        yield
        service.stop()

    async with Context() as outer:
        async with Context() as inner:
            await start()
            assert isinstance(get_resource_nowait(Service), Service)
            assert current_context() is inner

        assert current_context() is outer
        events.append("inner closed")
        assert get_resource_nowait(Service, optional=True) is None

    assert events == ["service stopped", "inner closed"]


async def test_component_start_with_context_teardown() -> None:
    events: list[Any] = []

    class MyComponent(Component):
        def __init__(self, value: int = 1) -> None:
            self.value = value

        @context_teardown
        async def start(self) -> AsyncGenerator[None, Any]:
            events.append(("started", self.value))
            add_resource(self.value, f"value{self.value}")
            exception = yield
            events.append(("stopped", exception))

    class Root(MyComponent):
        def __init__(self) -> None:
            super().__init__(5)
            self.add_component("child", MyComponent, value=7)

    with fail_after(5):
        async with Context():
            root = await start_component(Root)
            assert isinstance(root, Root)
            # Child components are started before their parents
            assert events == [("started", 7), ("started", 5)]
            with pytest.raises(ResourceConflict):
                add_resource(0, "value7")

            assert get_resource_nowait(int, "value5") == 5

            events.append("body done")

    assert events == [
        ("started", 7),
        ("started", 5),
        "body done",
        ("stopped", None),
        ("stopped", None),
    ]


async def test_teardown_callback_api() -> None:
    events: list[Any] = []

    with pytest.raises(RuntimeError, match="this context has not been entered yet"):
        Context().add_teardown_callback(lambda: None)

    with pytest.raises(NoCurrentContext):
        add_teardown_callback(lambda: None)

    def chained() -> None:
        events.append("chained (added during teardown)")

    async def async_callback(exception: BaseException | None) -> None:
        await checkpoint()
        events.append(("async", exception))
        add_teardown_callback(chained)

    async with Context() as ctx:
        with pytest.raises(TypeError, match="callback must be a callable"):
            ctx.add_teardown_callback(None)  # type: ignore[arg-type]

        ctx.add_teardown_callback(lambda: events.append("no exception arg"))
        add_teardown_callback(async_callback, True)
        add_teardown_callback(lambda exc: events.append(("sync", exc)), True)

    with pytest.raises(RuntimeError, match="this context has already been closed"):
        ctx.add_teardown_callback(lambda: None)

    assert events == [
        ("sync", None),
        ("async", None),
        "chained (added during teardown)",
        "no exception arg",
    ]


async def test_service_task_and_factory_names(caplog: pytest.LogCaptureFixture) -> None:
    caplog.set_level(logging.DEBUG, "asphalt.core")

    async def service() -> None:
        await sleep(60)

    class Name:
        def __format__(self, spec: str) -> str:
            return f"formatted<{spec}>"

        def __repr__(self) -> str:
            return "NameRepr"

    with fail_after(3):
        async with Context():
            await start_service_task(service, "with {braces} and %s")
            await start_service_task(service, Name())  # type: ignore[arg-type]
            await start_service_task(service, ("tuple", 1))  # type: ignore[arg-type]
            factory = await start_background_task_factory()
            handle = await factory.start_task(service, "adhoc")
            handle.cancel()

    starting = [
        record.getMessage()
        for record in caplog.records
        if record.getMessage().endswith("starting")
    ]
    assert starting == [
        "Background task (Service task: with {braces} and %s) starting",
        "Background task (Service task: formatted<>) starting",
        "Background task (Service task: ('tuple', 1)) starting",
        f"Background task (Service task: Background task factory ({id(factory):x})) "
        f"starting",
        "Background task (adhoc) starting",
    ]
    cancelling = [
        record.getMessage()
        for record in caplog.records
        if record.getMessage().startswith("Cancelling")
    ]
    assert cancelling == [
        "Cancelling service task ('tuple', 1)",
        "Cancelling service task NameRepr",
        "Cancelling service task 'with {braces} and %s'",
    ]
    assert (
        f"Waiting for service task 'Background task factory ({id(factory):x})' to finish"
        in [record.getMessage() for record in caplog.records]
    )


async def test_current_context_tracks_nesting_and_tasks() -> None:
    seen: dict[str, Any] = {}

    async def child_task() -> None:
        seen["task"] = current_context()

    async with Context() as outer:
        assert current_context() is outer
        async with Context() as inner:
            assert current_context() is inner
            assert inner.parent is outer
            async with anyio.create_task_group() as tg:
                tg.start_soon(child_task)

        assert current_context() is outer

    assert seen["task"] is inner
    with pytest.raises(NoCurrentContext):
        current_context()
