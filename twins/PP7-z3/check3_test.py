"""
Behaviour checks for refactoring 3 (module level ``stream_events`` / ``wait_event``:
filter generator lifted out of the closure, exit stack registrations in a helper,
bound check inlined, private ``_subscribe`` renamed).

Everything goes through the public API of ``asphalt.core``.
"""

from __future__ import annotations

import inspect
import warnings
from contextlib import AbstractAsyncContextManager
from typing import Any

import pytest
from anyio import (
    create_task_group,
    fail_after,
    get_cancelled_exc_class,
    move_on_after,
    wait_all_tasks_blocked,
)

from asphalt.core import (
    Event,
    Signal,
    SignalQueueFull,
    UnboundSignal,
    stream_events,
    wait_event,
)

pytestmark = pytest.mark.anyio()


class NumberEvent(Event):
    def __init__(self, number: Any = None) -> None:
        self.number = number


class Source:
    first = Signal(NumberEvent)
    second = Signal(NumberEvent)


def assert_no_subscribers(*signals: Signal[NumberEvent]) -> None:
    """A subscriber with a full queue causes a warning; no subscriber, no warning."""
    with warnings.catch_warnings():
        warnings.simplefilter("error")
        for signal in signals:
            for number in range(60):
                signal.dispatch(NumberEvent(number))


def count_subscribers(signal: Signal[NumberEvent]) -> int:
    """
    Count the subscribers of a signal whose queues are all full, by the warnings.
    (Only usable for subscribers with a zero size queue and no waiting receiver.)
    """
    with warnings.catch_warnings(record=True) as caught:
        warnings.simplefilter("always")
        signal.dispatch(NumberEvent("probe"))

    assert all(w.category is SignalQueueFull for w in caught)
    return len(caught)


# ---------------------------------------------------------------------------
# stream_events()
# ---------------------------------------------------------------------------


async def test_stream_is_an_async_generator_in_a_context_manager() -> None:
    source = Source()
    cm = stream_events([source.first])
    assert isinstance(cm, AbstractAsyncContextManager)
    # nothing is subscribed before the context manager is entered
    assert_no_subscribers(source.first)
    async with cm as stream:
        assert inspect.isasyncgen(stream)
        assert stream.__aiter__() is stream
        assert stream.ag_running is False

    method_cm = source.first.stream_events()
    assert isinstance(method_cm, AbstractAsyncContextManager)
    assert type(method_cm) is type(cm)


async def test_events_from_several_signals_interleave_in_dispatch_order() -> None:
    source1, source2 = Source(), Source()
    signals = [source1.first, source1.second, source2.first]
    async with stream_events(signals) as stream:
        expected = []
        for number in range(9):
            signal = signals[number % 3]
            signal.dispatch(NumberEvent(number))
            expected.append((number, signal, "second" if number % 3 == 1 else "first"))

        # not listened to
        source2.second.dispatch(NumberEvent(99))
        received = []
        with fail_after(1):
            async for event in stream:
                received.append(event)
                if len(received) == 9:
                    break

    assert [e.number for e in received] == list(range(9))
    assert [e.topic for e in received] == [topic for _, _, topic in expected]
    assert [e.source for e in received] == [source1, source1, source2] * 3
    assert_no_subscribers(*signals)


async def test_signals_can_be_any_iterable_consumed_once() -> None:
    source = Source()
    consumed = []

    def generate() -> Any:
        for signal in (source.first, source.second):
            consumed.append(signal)
            yield signal

    async with stream_events(generate(), max_queue_size=0):  # type: ignore[arg-type]
        assert consumed == [source.first, source.second]
        assert count_subscribers(source.first) == 1
        assert count_subscribers(source.second) == 1

    assert_no_subscribers(source.first, source.second)


async def test_no_signals_at_all() -> None:
    async with stream_events([]) as stream:
        with move_on_after(0.05) as scope:
            await stream.__anext__()

        assert scope.cancelled_caught


async def test_same_signal_twice_delivers_twice() -> None:
    source = Source()
    async with stream_events([source.first, source.first], max_queue_size=0):
        assert count_subscribers(source.first) == 2

    assert_no_subscribers(source.first)
    async with stream_events([source.first, source.first]) as stream:
        source.first.dispatch(NumberEvent(1))
        source.first.dispatch(NumberEvent(2))
        with fail_after(1):
            numbers = [(await stream.__anext__()).number for _ in range(4)]

    assert numbers == [1, 1, 2, 2]
    assert_no_subscribers(source.first)


@pytest.mark.parametrize("position", [0, 1, 2])
async def test_unbound_signal_rolls_back_earlier_subscriptions(position: int) -> None:
    source = Source()
    signals = [source.first, source.second]
    signals.insert(position, Source.first)
    entered = False
    with pytest.raises(UnboundSignal, match="not bound to an instance") as exc_info:
        async with stream_events(signals, max_queue_size=0):
            entered = True

    assert not entered
    assert exc_info.value.__cause__ is None
    assert_no_subscribers(source.first, source.second)


async def test_something_that_is_not_a_signal() -> None:
    source = Source()
    with pytest.raises(AttributeError):
        async with stream_events([source.first, object()]):  # type: ignore[list-item]
            pytest.fail("should not get here")

    assert_no_subscribers(source.first)


@pytest.mark.parametrize(
    "size, message",
    [
        pytest.param(-1, "max_buffer_size cannot be negative", id="negative"),
        pytest.param(1.5, "max_buffer_size must be either an integer or math.inf", id="float"),
    ],
)
async def test_bad_queue_size(size: Any, message: str) -> None:
    source = Source()
    cm = source.first.stream_events(max_queue_size=size)
    # the problem is only noticed when entering
    with pytest.raises(ValueError, match=message):
        async with cm:
            pytest.fail("should not get here")

    with pytest.raises(ValueError, match=message):
        async with stream_events([Source.first], max_queue_size=size):
            pytest.fail("should not get here")

    assert_no_subscribers(source.first)


async def test_exception_in_the_block_unsubscribes_and_closes() -> None:
    source = Source()
    stream = None
    with pytest.raises(KeyError, match="boom"):
        async with stream_events([source.first, source.second]) as stream:
            source.first.dispatch(NumberEvent(1))
            source.second.dispatch(NumberEvent(2))
            assert (await stream.__anext__()).number == 1
            raise KeyError("boom")

    assert stream is not None
    with pytest.raises(StopAsyncIteration):
        await stream.__anext__()

    assert_no_subscribers(source.first, source.second)


async def test_leftover_events_are_dropped_on_exit() -> None:
    source = Source()
    async with source.first.stream_events() as stream:
        for number in range(5):
            source.first.dispatch(NumberEvent(number))

        assert (await stream.__anext__()).number == 0

    with pytest.raises(StopAsyncIteration):
        await stream.__anext__()

    # closing again is harmless
    await stream.aclose()
    assert_no_subscribers(source.first)


async def test_stream_never_started_is_closed_on_exit() -> None:
    source = Source()
    filter_calls = []
    async with source.first.stream_events(filter_calls.append) as stream:  # type: ignore[arg-type]
        source.first.dispatch(NumberEvent(1))

    assert filter_calls == []
    with pytest.raises(StopAsyncIteration):
        await stream.__anext__()

    assert filter_calls == []


async def test_closing_the_stream_early_keeps_the_subscription_until_exit() -> None:
    source = Source()
    async with source.first.stream_events(max_queue_size=1) as stream:
        source.first.dispatch(NumberEvent(1))
        assert (await stream.__anext__()).number == 1
        await stream.aclose()
        with pytest.raises(StopAsyncIteration):
            await stream.__anext__()

        # still subscribed, the queue still fills up
        source.first.dispatch(NumberEvent(2))
        with pytest.warns(SignalQueueFull, match=r"Queue full \(1\)"):
            source.first.dispatch(NumberEvent(3))

    assert_no_subscribers(source.first)


async def test_cancelled_consumer_unsubscribes() -> None:
    source = Source()
    received = []
    cancelled = []

    async def consumer() -> None:
        async with stream_events([source.first, source.second], max_queue_size=3) as s:
            try:
                async for event in s:
                    received.append(event.number)
            except get_cancelled_exc_class():
                cancelled.append(True)
                raise

    async with create_task_group() as tg:
        tg.start_soon(consumer)
        await wait_all_tasks_blocked()
        source.first.dispatch(NumberEvent(1))
        source.second.dispatch(NumberEvent(2))
        await wait_all_tasks_blocked()
        tg.cancel_scope.cancel()

    assert received == [1, 2]
    assert cancelled == [True]
    assert_no_subscribers(source.first, source.second)


async def test_filter_sees_events_lazily_and_in_order() -> None:
    source = Source()
    seen = []

    def event_filter(event: NumberEvent) -> bool:
        seen.append(event.number)
        return event.number % 2 == 0

    async with stream_events([source.first], event_filter, max_queue_size=10) as stream:
        for number in range(1, 7):
            source.first.dispatch(NumberEvent(number))

        assert seen == []
        assert (await stream.__anext__()).number == 2
        assert seen == [1, 2]
        assert (await stream.__anext__()).number == 4
        assert seen == [1, 2, 3, 4]


async def test_filter_positional_and_keyword() -> None:
    source = Source()
    async with stream_events(
        signals=[source.first], filter=lambda e: e.number == 2, max_queue_size=4
    ) as stream:
        for number in range(4):
            source.first.dispatch(NumberEvent(number))

        with fail_after(1):
            assert (await stream.__anext__()).number == 2

    with pytest.raises(TypeError):
        stream_events([source.first], None, 4)  # type: ignore[misc]


async def test_two_independent_streams_on_one_signal() -> None:
    source = Source()
    async with source.first.stream_events(
        lambda e: e.number > 1
    ) as big, source.first.stream_events(lambda e: e.number <= 1) as small:
        for number in range(4):
            source.first.dispatch(NumberEvent(number))

        with fail_after(1):
            assert [(await big.__anext__()).number for _ in range(2)] == [2, 3]
            assert [(await small.__anext__()).number for _ in range(2)] == [0, 1]


# ---------------------------------------------------------------------------
# wait_event()
# ---------------------------------------------------------------------------


async def test_wait_event_returns_first_match_and_unsubscribes() -> None:
    source = Source()
    results: list[Any] = []

    async def waiter() -> None:
        results.append(
            await wait_event([source.first, source.second], lambda e: e.number >= 2)
        )

    async with create_task_group() as tg:
        tg.start_soon(waiter)
        await wait_all_tasks_blocked()
        events = [NumberEvent(number) for number in range(5)]
        source.first.dispatch(events[0])
        source.second.dispatch(events[1])
        source.second.dispatch(events[2])
        source.first.dispatch(events[3])
        await wait_all_tasks_blocked()
        assert results == [events[2]]
        assert results[0].topic == "second"
        assert_no_subscribers(source.first, source.second)


async def test_wait_event_does_not_see_earlier_events() -> None:
    source = Source()
    source.first.dispatch(NumberEvent("early"))

    async def dispatch_later() -> None:
        await wait_all_tasks_blocked()
        source.first.dispatch(NumberEvent("late"))

    async with create_task_group() as tg:
        tg.start_soon(dispatch_later)
        with fail_after(1):
            event = await source.first.wait_event()

    assert event.number == "late"


async def test_wait_event_is_a_coroutine_that_subscribes_when_awaited() -> None:
    source = Source()
    coro = wait_event([source.first])
    assert inspect.iscoroutine(coro)
    method_coro = source.first.wait_event()
    assert inspect.iscoroutine(method_coro)
    # neither has subscribed yet, so this event is missed by both
    source.first.dispatch(NumberEvent("missed"))
    results = []

    async def run(c: Any) -> None:
        results.append((await c).number)

    async with create_task_group() as tg:
        tg.start_soon(run, coro)
        tg.start_soon(run, method_coro)
        await wait_all_tasks_blocked()
        source.first.dispatch(NumberEvent("seen"))

    assert results == ["seen", "seen"]


async def test_wait_event_timeout_unsubscribes() -> None:
    source = Source()
    with move_on_after(0.05) as scope:
        await wait_event([source.first, source.second], lambda e: False)

    assert scope.cancelled_caught
    assert_no_subscribers(source.first, source.second)


async def test_wait_event_non_matching_events_do_not_overflow_silently() -> None:
    """wait_event listens with the default queue size of 50."""
    source = Source()
    result = []

    async def waiter() -> None:
        result.append(await source.first.wait_event(lambda e: e.number == 55))

    async with create_task_group() as tg:
        tg.start_soon(waiter)
        await wait_all_tasks_blocked()
        with warnings.catch_warnings(record=True) as caught:
            warnings.simplefilter("always")
            for number in range(56):
                source.first.dispatch(NumberEvent(number))

        # the waiter was handed event 0 directly, then 50 fit in the queue
        assert [str(w.message) for w in caught] == [
            "Queue full (50) when trying to send dispatched event to subscriber"
        ] * 5
        await wait_all_tasks_blocked()
        assert result == []
        source.first.dispatch(NumberEvent(55))

    assert [e.number for e in result] == [55]


async def test_wait_event_unbound() -> None:
    source = Source()
    with pytest.raises(UnboundSignal):
        await wait_event([source.first, Source.second])

    with pytest.raises(UnboundSignal):
        await Source.first.wait_event(lambda e: True)

    assert_no_subscribers(source.first)


async def test_wait_event_filter_error_propagates() -> None:
    source = Source()
    errors = []

    def bad_filter(event: NumberEvent) -> bool:
        raise ValueError(f"cannot judge {event.number}")

    async def waiter() -> None:
        try:
            await wait_event([source.first], bad_filter)
        except ValueError as exc:
            errors.append(str(exc))

    async with create_task_group() as tg:
        tg.start_soon(waiter)
        await wait_all_tasks_blocked()
        source.first.dispatch(NumberEvent(1))
        source.first.dispatch(NumberEvent(2))

    assert errors == ["cannot judge 1"]
    assert_no_subscribers(source.first)


async def test_wait_event_completes_as_soon_as_the_event_is_dispatched() -> None:
    source = Source()
    order = []

    async def waiter() -> None:
        order.append("waiter start")
        event = await source.first.wait_event()
        order.append(f"waiter got {event.number}")
        assert_no_subscribers(source.first)

    async with create_task_group() as tg:
        tg.start_soon(waiter)
        await wait_all_tasks_blocked()
        order.append("dispatching")
        source.first.dispatch(NumberEvent(1))
        source.first.dispatch(NumberEvent(2))
        order.append("dispatched")
        await wait_all_tasks_blocked()
        order.append("main resumes")

    assert order == [
        "waiter start",
        "dispatching",
        "dispatched",
        "waiter got 1",
        "main resumes",
    ]


# ---------------------------------------------------------------------------
# unbound signals, dispatch side
# ---------------------------------------------------------------------------


def test_unbound_dispatch_checks() -> None:
    with pytest.raises(UnboundSignal, match="not bound to an instance") as exc_info:
        Source.first.dispatch(NumberEvent(1))

    assert exc_info.value.args == (
        "attempted to use a signal that is not bound to an instance",
    )
    with pytest.raises(UnboundSignal):
        Source.first.dispatch("wrong type too")  # type: ignore[arg-type]

    with pytest.raises(TypeError, match="Event type mismatch"):
        Source().first.dispatch("wrong type")  # type: ignore[arg-type]
