"""Statement-level control-flow graphs with exceptional edges (the stdlib has none).

Built in continuation-passing style so that ``finally`` bodies and ``with`` exits are
duplicated per continuation (normal / exception / return / break / continue).

Edge labels:
  'n' normal   't'/'f' branch outcome   'e' exception raised by the node
  'h' exception dispatched to a handler   's' exception swallowed by a context manager
"""
from __future__ import annotations

import ast
from dataclasses import dataclass, field
from typing import Callable, Iterable, Iterator, Optional

from .loader import AnalysisError, FuncInfo


@dataclass(eq=False)
class Node:
    id: int
    kind: str
    ast: object
    lineno: int
    succ: list = field(default_factory=list)  # (dst id, label)
    pred: list = field(default_factory=list)  # (src id, label)
    item: object = None  # ast.withitem for with_enter/with_exit
    is_async: bool = False  # async with / async for
    exc_path: bool = False  # with_exit on the exceptional path
    cont: str = ""  # continuation kind for duplicated nodes (normal/raise/return/break/continue)

    def __repr__(self) -> str:
        txt = ""
        if isinstance(self.ast, ast.AST) and self.kind in ("stmt", "test", "for_iter"):
            try:
                txt = ast.unparse(self.ast).split("\n")[0][:60]
            except Exception:
                txt = ""
        return f"<{self.id}:{self.kind}@{self.lineno} {txt}>"


_RAISING = (ast.Call, ast.Await, ast.Raise, ast.Assert, ast.Yield, ast.YieldFrom, ast.Delete)


def syntactically_may_raise(node: ast.AST) -> bool:
    for n in iter_own(node):
        if isinstance(n, _RAISING):
            return True
        if isinstance(n, ast.Subscript) and isinstance(n.ctx, (ast.Load, ast.Del)):
            return True
        if isinstance(n, ast.Attribute) and isinstance(n.ctx, ast.Load) and n.attr in ("__qualname__", "__name__"):
            return True  # arbitrary callables have neither (effects.node_may_raise decides)
    return False


def iter_own(node: ast.AST) -> Iterator[ast.AST]:
    """Sub-nodes evaluated as part of this node (not bodies of nested defs/lambdas)."""
    stack = [node]
    while stack:
        n = stack.pop()
        yield n
        if isinstance(n, (ast.FunctionDef, ast.AsyncFunctionDef)):
            stack.extend(n.decorator_list)
            stack.extend(n.args.defaults)
            stack.extend(d for d in n.args.kw_defaults if d is not None)
            continue
        if isinstance(n, ast.Lambda):
            stack.extend(n.args.defaults)
            stack.extend(d for d in n.args.kw_defaults if d is not None)
            continue
        if isinstance(n, ast.ClassDef):
            continue
        stack.extend(ast.iter_child_nodes(n))


def eval_order(node: ast.AST) -> list:
    """Sub-expressions of ``node`` in (approximate) evaluation order, post-order:
    operands before the operation that consumes them.  Lambda bodies are skipped."""
    out: list = []

    def visit(n):
        if isinstance(n, ast.Lambda):
            for d in n.args.defaults + [d for d in n.args.kw_defaults if d is not None]:
                visit(d)
            out.append(n)
            return
        if isinstance(n, (ast.FunctionDef, ast.AsyncFunctionDef)):
            for d in n.decorator_list + n.args.defaults + [d for d in n.args.kw_defaults if d is not None]:
                visit(d)
            out.append(n)
            return
        if isinstance(n, ast.ClassDef):
            out.append(n)
            return
        if isinstance(n, (ast.Assign,)):
            visit(n.value)
            for t in n.targets:
                visit(t)
            out.append(n)
            return
        if isinstance(n, ast.AugAssign):
            visit(n.target)
            visit(n.value)
            out.append(n)
            return
        if isinstance(n, ast.AnnAssign):
            if n.value is not None:
                visit(n.value)
            visit(n.target)
            out.append(n)
            return
        if isinstance(n, ast.NamedExpr):
            visit(n.value)
            out.append(n)
            return
        if isinstance(n, ast.Call):
            visit(n.func)
            for a in n.args:
                visit(a)
            for k in n.keywords:
                visit(k.value)
            out.append(n)
            return
        for c in ast.iter_child_nodes(n):
            visit(c)
        out.append(n)

    visit(node)
    return out


@dataclass
class _Env:
    k_return: Callable[[], int]
    k_raise: Callable[[], int]
    k_break: Optional[Callable[[], int]] = None
    k_continue: Optional[Callable[[], int]] = None


def _const(x: int) -> Callable[[], int]:
    return lambda: x


class CFG:
    def __init__(self, func: FuncInfo, swallows: Callable[[ast.AST], bool] | None = None):
        self.func = func
        self.nodes: list[Node] = []
        self._swallows = swallows or (lambda expr: False)
        self.entry = self._new("entry", func.node, func.node.lineno).id
        self.exit = self._new("exit", None, getattr(func.node, "end_lineno", 0) or 0).id
        self.raise_exit = self._new("raise_exit", None, getattr(func.node, "end_lineno", 0) or 0).id
        env = _Env(_const(self.exit), _const(self.raise_exit))
        first = self._seq(func.body, self.exit, env)
        self._link(self.entry, first, "n")
        self._prune()
        self._ast_index: dict | None = None
        self._dom: dict | None = None

    # ------------------------------------------------------------ construction
    def _new(self, kind, node, lineno, **kw) -> Node:
        n = Node(len(self.nodes), kind, node, lineno, **kw)
        self.nodes.append(n)
        return n

    def _link(self, a: int, b: int, label: str) -> None:
        self.nodes[a].succ.append((b, label))

    def _seq(self, stmts: list, k_next: int, env: _Env) -> int:
        nxt = k_next
        for st in reversed(stmts):
            nxt = self._stmt(st, nxt, env)
        return nxt

    def _simple(self, st, k_next: int, env: _Env, kind="stmt") -> int:
        n = self._new(kind, st, st.lineno)
        self._link(n.id, k_next, "n")
        if syntactically_may_raise(st):
            self._link(n.id, env.k_raise(), "e")
        return n.id

    def _stmt(self, st, k_next: int, env: _Env) -> int:
        if isinstance(st, ast.Return):
            n = self._new("stmt", st, st.lineno)
            self._link(n.id, env.k_return(), "n")
            if st.value is not None and syntactically_may_raise(st.value):
                self._link(n.id, env.k_raise(), "e")
            return n.id
        if isinstance(st, ast.Raise):
            n = self._new("stmt", st, st.lineno)
            self._link(n.id, env.k_raise(), "e")
            return n.id
        if isinstance(st, ast.Break):
            if env.k_break is None:
                raise AnalysisError(f"break outside loop at {self.func.loc(st)}")
            n = self._new("stmt", st, st.lineno)
            self._link(n.id, env.k_break(), "n")
            return n.id
        if isinstance(st, ast.Continue):
            if env.k_continue is None:
                raise AnalysisError(f"continue outside loop at {self.func.loc(st)}")
            n = self._new("stmt", st, st.lineno)
            self._link(n.id, env.k_continue(), "n")
            return n.id
        if isinstance(st, ast.If):
            t = self._new("test", st.test, st.lineno)
            body = self._seq(st.body, k_next, env)
            orelse = self._seq(st.orelse, k_next, env) if st.orelse else k_next
            cv = _const_truth(st.test)
            if cv is not False:
                self._link(t.id, body, "t")
            if cv is not True:
                self._link(t.id, orelse, "f")
            if syntactically_may_raise(st.test):
                self._link(t.id, env.k_raise(), "e")
            return t.id
        if isinstance(st, ast.While):
            t = self._new("test", st.test, st.lineno)
            orelse = self._seq(st.orelse, k_next, env) if st.orelse else k_next
            benv = _Env(env.k_return, env.k_raise, _const(k_next), _const(t.id))
            body = self._seq(st.body, t.id, benv)
            cv = _const_truth(st.test)
            if cv is not False:
                self._link(t.id, body, "t")
            if cv is not True:
                self._link(t.id, orelse, "f")
            if syntactically_may_raise(st.test):
                self._link(t.id, env.k_raise(), "e")
            return t.id
        if isinstance(st, (ast.For, ast.AsyncFor)):
            is_async = isinstance(st, ast.AsyncFor)
            it = self._new("for_iter", st.iter, st.lineno, is_async=is_async)
            nx = self._new("for_next", st, st.lineno, is_async=is_async)
            self._link(it.id, nx.id, "n")
            if syntactically_may_raise(st.iter):
                self._link(it.id, env.k_raise(), "e")
            orelse = self._seq(st.orelse, k_next, env) if st.orelse else k_next
            benv = _Env(env.k_return, env.k_raise, _const(k_next), _const(nx.id))
            body = self._seq(st.body, nx.id, benv)
            self._link(nx.id, body, "t")
            self._link(nx.id, orelse, "f")
            self._link(nx.id, env.k_raise(), "e")
            return it.id
        if isinstance(st, (ast.With, ast.AsyncWith)):
            return self._with(st, list(st.items), k_next, env)
        if isinstance(st, ast.Try) or st.__class__.__name__ == "TryStar":
            return self._try(st, k_next, env)
        if isinstance(st, ast.Match):
            raise AnalysisError(f"unsupported statement kind match at {self.func.loc(st)}")
        return self._simple(st, k_next, env)

    def _memo(self, build: Callable[[int], int]):
        cache: dict = {}

        def get(k: int) -> int:
            if k not in cache:
                cache[k] = build(k)
            return cache[k]

        return get

    def _with(self, st, items: list, k_next: int, env: _Env) -> int:
        item = items[0]
        is_async = isinstance(st, ast.AsyncWith)

        def make_exit(k: int, cont: str) -> int:
            n = self._new("with_exit", st, st.lineno, item=item, is_async=is_async, cont=cont)
            self._link(n.id, k, "n")
            self._link(n.id, env.k_raise(), "e")
            return n.id

        exits: dict = {}

        def exit_to(kf: Callable[[], int], cont: str) -> Callable[[], int]:
            def get() -> int:
                k = kf()
                if (k, cont) not in exits:
                    exits[(k, cont)] = make_exit(k, cont)
                return exits[(k, cont)]

            return get

        exc_exit_cache: list = []

        def exc_exit() -> int:
            if not exc_exit_cache:
                n = self._new("with_exit", st, st.lineno, item=item, is_async=is_async, exc_path=True, cont="raise")
                self._link(n.id, env.k_raise(), "e")
                if self._swallows(item.context_expr):
                    self._link(n.id, k_next, "s")
                exc_exit_cache.append(n.id)
            return exc_exit_cache[0]

        inner_env = _Env(
            exit_to(env.k_return, "return"),
            exc_exit,
            exit_to(env.k_break, "break") if env.k_break else None,
            exit_to(env.k_continue, "continue") if env.k_continue else None,
        )
        normal_exit = exit_to(_const(k_next), "normal")()
        if len(items) > 1:
            inner = self._with(st, items[1:], normal_exit, inner_env)
        else:
            inner = self._seq(st.body, normal_exit, inner_env)
        enter = self._new("with_enter", st, st.lineno, item=item, is_async=is_async)
        self._link(enter.id, inner, "n")
        self._link(enter.id, env.k_raise(), "e")
        return enter.id

    def _try(self, st, k_next: int, env: _Env) -> int:
        fin_cache: dict = {}

        def fin(kf: Callable[[], int], cont: str) -> Callable[[], int]:
            if not st.finalbody:
                return kf

            def get() -> int:
                k = kf()
                if (k, cont) not in fin_cache:
                    start = len(self.nodes)
                    fin_cache[(k, cont)] = self._seq(st.finalbody, k, env)
                    for n in self.nodes[start:]:
                        if not n.cont:
                            n.cont = cont
                return fin_cache[(k, cont)]

            return get

        after = fin(_const(k_next), "normal")
        outer_raise = fin(env.k_raise, "raise")
        henv = _Env(
            fin(env.k_return, "return"),
            outer_raise,
            fin(env.k_break, "break") if env.k_break else None,
            fin(env.k_continue, "continue") if env.k_continue else None,
        )
        if st.handlers:
            disp = self._new("dispatch", st, st.lineno)
            catch_all = False
            for h in st.handlers:
                hn = self._new("handler", h, h.lineno)
                body = self._seq(h.body, after(), henv)
                self._link(hn.id, body, "n")
                self._link(disp.id, hn.id, "h")
                if h.type is None or _names_of(h.type) & {"BaseException"}:
                    catch_all = True
            if not catch_all:
                self._link(disp.id, outer_raise(), "e")
            body_raise = _const(disp.id)
        else:
            body_raise = outer_raise
        benv = _Env(henv.k_return, body_raise, henv.k_break, henv.k_continue)
        orelse = self._seq(st.orelse, after(), henv) if st.orelse else after()
        return self._seq(st.body, orelse, benv)

    def _prune(self) -> None:
        reach = set()
        stack = [self.entry]
        while stack:
            n = stack.pop()
            if n in reach:
                continue
            reach.add(n)
            stack.extend(d for d, _ in self.nodes[n].succ)
        self.live = reach | {self.exit, self.raise_exit}
        for n in self.nodes:
            n.pred = []
        for n in self.nodes:
            if n.id in reach:
                for d, lab in n.succ:
                    self.nodes[d].pred.append((n.id, lab))

    # ------------------------------------------------------------ queries
    def live_nodes(self) -> list:
        return [n for n in self.nodes if n.id in self.live]

    def nodes_containing(self, target: ast.AST) -> list:
        """CFG nodes whose own AST contains ``target`` (several when duplicated)."""
        if self._ast_index is None:
            idx: dict = {}
            for n in self.live_nodes():
                root = self._own_ast(n)
                if root is None:
                    continue
                for sub in iter_own(root):
                    idx.setdefault(id(sub), []).append(n.id)
            self._ast_index = idx
        return [self.nodes[i] for i in self._ast_index.get(id(target), [])]

    @staticmethod
    def _own_ast(n: Node):
        if n.kind in ("stmt", "test", "for_iter"):
            return n.ast
        if n.kind == "for_next":
            return n.ast.target
        if n.kind == "with_enter":
            return n.item
        if n.kind == "handler":
            return n.ast.type
        return None

    def own_ast(self, n: Node):
        return self._own_ast(n)

    def reach(self, starts: Iterable[int], avoid: Iterable[int] = (), edge_ok=None, include_start=True) -> set:
        avoid = set(avoid)
        seen: set = set()
        stack = []
        for s in starts:
            if include_start:
                stack.append(s)
            else:
                for d, lab in self.nodes[s].succ:
                    if edge_ok is None or edge_ok(self.nodes[s], d, lab):
                        stack.append(d)
        while stack:
            n = stack.pop()
            if n in seen or n in avoid:
                continue
            seen.add(n)
            for d, lab in self.nodes[n].succ:
                if edge_ok is None or edge_ok(self.nodes[n], d, lab):
                    stack.append(d)
        return seen

    def reach_back(self, targets: Iterable[int], avoid: Iterable[int] = (), edge_ok=None, include_start=True) -> set:
        avoid = set(avoid)
        seen: set = set()
        stack = []
        for s in targets:
            if include_start:
                stack.append(s)
            else:
                for p, lab in self.nodes[s].pred:
                    if edge_ok is None or edge_ok(self.nodes[p], s, lab):
                        stack.append(p)
        while stack:
            n = stack.pop()
            if n in seen or n in avoid:
                continue
            seen.add(n)
            for p, lab in self.nodes[n].pred:
                if edge_ok is None or edge_ok(self.nodes[p], n, lab):
                    stack.append(p)
        return seen

    def between(self, a: Iterable[int], b: Iterable[int], edge_ok=None, avoid: Iterable[int] = ()) -> set:
        """Nodes strictly on some path from a node in ``a`` to a node in ``b``
        (end points excluded unless they lie on a cycle back)."""
        a, b = set(a), set(b)
        fwd = self.reach(a, avoid=avoid, edge_ok=edge_ok, include_start=False)
        bwd = self.reach_back(b, avoid=avoid, edge_ok=edge_ok, include_start=False)
        return fwd & bwd

    def dominators(self) -> dict:
        if self._dom is not None:
            return self._dom
        live = sorted(self.live)
        allset = set(live)
        dom = {n: set(allset) for n in live}
        dom[self.entry] = {self.entry}
        changed = True
        order = self._rpo()
        while changed:
            changed = False
            for n in order:
                if n == self.entry:
                    continue
                preds = [p for p, _ in self.nodes[n].pred if p in dom]
                if not preds:
                    new = {n}
                else:
                    new = set.intersection(*(dom[p] for p in preds)) | {n}
                if new != dom[n]:
                    dom[n] = new
                    changed = True
        self._dom = dom
        return dom

    def _rpo(self) -> list:
        seen, order = set(), []

        def dfs(n):
            stack = [(n, iter(self.nodes[n].succ))]
            seen.add(n)
            while stack:
                cur, it = stack[-1]
                for d, _ in it:
                    if d not in seen:
                        seen.add(d)
                        stack.append((d, iter(self.nodes[d].succ)))
                        break
                else:
                    order.append(cur)
                    stack.pop()

        dfs(self.entry)
        return list(reversed(order))

    def dominates(self, a: int, b: int) -> bool:
        return a in self.dominators().get(b, set())

    def all_paths_pass(self, start: int, goals: Iterable[int], through: Iterable[int], edge_ok=None) -> bool:
        """True iff every path from ``start`` to any node in ``goals`` passes through a
        node in ``through``."""
        through = set(through)
        r = self.reach([start], avoid=through, edge_ok=edge_ok)
        return not (r & set(goals))

    def enumerate_paths(self, start: int, goals: Iterable[int], edge_ok=None, limit: int = 20000, unroll: int = 1):
        """Acyclic-ish paths (each node visited at most ``unroll``+1 times)."""
        goals = set(goals)
        out = []
        stack = [(start, (start,))]
        while stack and len(out) < limit:
            n, path = stack.pop()
            if n in goals and len(path) > 1 or (n in goals and n == start and len(path) == 1 and not self.nodes[n].succ):
                out.append(path)
                if n in (self.exit, self.raise_exit):
                    continue
            for d, lab in self.nodes[n].succ:
                if edge_ok is not None and not edge_ok(self.nodes[n], d, lab):
                    continue
                if path.count(d) > unroll:
                    continue
                stack.append((d, path + (d,)))
        return out

    def describe_path(self, path: Iterable[int]) -> list:
        return [f"{self.func.module.relpath}:{self.nodes[i].lineno}:{self.nodes[i].kind}" for i in path]


def _const_truth(test) -> Optional[bool]:
    if isinstance(test, ast.Constant):
        return bool(test.value)
    return None


def _names_of(expr) -> set:
    if expr is None:
        return set()
    if isinstance(expr, ast.Tuple):
        out = set()
        for e in expr.elts:
            out |= _names_of(e)
        return out
    if isinstance(expr, ast.Name):
        return {expr.id}
    if isinstance(expr, ast.Attribute):
        return {expr.attr}
    if isinstance(expr, ast.Call):
        return {"<call>" + ast.unparse(expr.func)}
    return {ast.unparse(expr)}


handler_names = _names_of
